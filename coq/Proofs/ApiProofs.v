(* ApiProofs.v — the API layer over ANY search function that satisfies SearchOK:
   iterators (C08, C09), split / splitn (C10), replacement (C11), slice safety (C05). *)
From FR Require Import Base Utf8 Api.
From Coq Require Import Lia.

Lemma cp_len_pos b : 1 <= cp_len b.
Proof. unfold cp_len. destruct (b <? _); [lia|]. destruct (b <? _); [lia|]. destruct (b <? _); lia. Qed.

Lemma next_utf8_gt t i : i < next_utf8 t i.
Proof. unfold next_utf8. destruct (nth_error t i); [pose proof (cp_len_pos n)|]; lia. Qed.

Section ApiProofs.
Variable tx : text.
Variable search : nat -> bool -> sres.
Let tlen := length tx.

(* what a search function owes its callers: the match lies at or after the start offset,
   inside the text, start <= end, both on character boundaries *)
Definition SearchOK : Prop :=
  forall p f sv, p <= tlen -> search p f = SSome sv ->
  exists a b, span_of sv = Some (a, b) /\ p <= a /\ a <= b /\ b <= tlen /\
              is_boundary tx a = true /\ is_boundary tx b = true.

Hypothesis HOK : SearchOK.

Notation mnext := (mnext tx search).
Notation collect := (collect tx search).

Definition opt_is (o : option nat) (b : nat) : bool :=
  match o with Some lm => lm =? b | None => false end.

(* ---------- one call of next() ---------- *)

Lemma matches_next_step : forall fuel st a b sv st',
  matches_next tx search fuel st = (Some (ItOk a b sv), st') ->
  last_end st <= a /\ a <= b /\ b <= tlen /\ b <= last_end st' /\ last_match st' = Some b /\
  (a = b -> b < last_end st') /\ (a = b -> last_match st <> Some b) /\
  is_boundary tx a = true /\ is_boundary tx b = true /\ span_of sv = Some (a, b).
Proof.
  induction fuel as [|f IH]; intros st a b sv st' H; cbn [matches_next] in H;
    fold tlen in H; destruct (Nat.ltb_spec tlen (last_end st)) as [|Hle]; try discriminate.
  all: destruct (search (last_end st) _) as [e|?|sv0] eqn:E; try discriminate.
  all: destruct (HOK _ _ _ Hle E) as (a0 & b0 & Hs & H1 & H2 & H3 & Hb1 & Hb2); rewrite Hs in H.
  all: pose proof (next_utf8_gt tx b0) as Hn.
  all: destruct (Nat.eqb_spec a0 b0) as [Heq|Hne].
  all: try (inversion H; subst; cbn [last_end last_match]; repeat split; auto; try lia; fail).
  all: destruct (match last_match st with Some lm => lm =? b0 | None => false end) eqn:Eo;
    try discriminate.
  all: try (inversion H; subst; cbn [last_end last_match]; repeat split; auto; try lia;
            intros _ Hc; rewrite Hc in Eo; rewrite Nat.eqb_refl in Eo; discriminate).
  apply IH in H. cbn [last_end last_match] in H.
  destruct H as (A1 & A2 & A3 & A4 & A5 & A6 & A7 & A8 & A9 & A10).
  repeat split; auto; try lia.
Qed.

(* the self-recursion always has enough fuel: every skipped empty match moves last_end right *)
Lemma matches_next_no_fuel_err : forall fuel st st',
  tlen + 1 < fuel + last_end st + 1 ->
  matches_next tx search fuel st <> (Some (ItErr EFuel), st') \/
  exists p f, search p f = SErr EFuel.
Proof.
  induction fuel as [|f IH]; intros st st' Hf; cbn [matches_next]; fold tlen.
  - destruct (Nat.ltb_spec tlen (last_end st)); [left; discriminate|lia].
  - destruct (Nat.ltb_spec tlen (last_end st)) as [|Hle]; [left; discriminate|].
    destruct (search (last_end st) _) as [e|?|sv0] eqn:E.
    + destruct e; try (left; discriminate). right; eauto.
    + left; discriminate.
    + destruct (HOK _ _ _ Hle E) as (a0 & b0 & Hs & H1 & H2 & H3 & _); rewrite Hs.
      pose proof (next_utf8_gt tx b0) as Hn.
      destruct (a0 =? b0); [|left; discriminate].
      destruct (match last_match st with Some lm => lm =? b0 | None => false end); [|left; discriminate].
      apply IH. cbn [last_end]. lia.
Qed.

Lemma matches_next_err : forall fuel st e st',
  matches_next tx search fuel st = (Some (ItErr e), st') ->
  (e = EFuel \/ exists p f, search p f = SErr e) /\ (e <> EFuel -> last_end st' = tlen + 1).
Proof.
  induction fuel as [|f IH]; intros st e st' H; cbn [matches_next] in H; fold tlen in H;
    destruct (Nat.ltb_spec tlen (last_end st)) as [|Hle]; try discriminate.
  all: destruct (search (last_end st) _) as [e0|?|sv0] eqn:E; try discriminate.
  all: try (inversion H; subst; cbn [last_end]; split; [right; eauto|auto]; fail).
  all: destruct (HOK _ _ _ Hle E) as (a0 & b0 & Hs & _); rewrite Hs in H.
  all: destruct (a0 =? b0); try discriminate.
  all: destruct (match last_match st with Some lm => lm =? b0 | None => false end); try discriminate.
  - inversion H; subst. split; auto. intros; congruence.
  - eapply IH; eauto.
Qed.

Definition mflag (st : mstate) : bool :=
  match last_match st with Some lm => lm <? last_end st | None => false end.
Definition done (st : mstate) : Prop :=
  tlen < last_end st \/ search (last_end st) (mflag st) = SNone.

Lemma done_none st fuel : done st -> matches_next tx search fuel st = (None, st).
Proof.
  intros [H|H]; destruct fuel; cbn [matches_next]; fold tlen; fold (mflag st);
    destruct (Nat.ltb_spec tlen (last_end st)); try reflexivity; try lia; rewrite H; reflexivity.
Qed.

Lemma matches_next_none : forall fuel st st',
  matches_next tx search fuel st = (None, st') -> done st'.
Proof.
  induction fuel as [|f IH]; intros st st' H; cbn [matches_next] in H; fold tlen in H;
    fold (mflag st) in H; destruct (Nat.ltb_spec tlen (last_end st)) as [Hgt|Hle].
  all: try (inversion H; subst; left; assumption).
  all: destruct (search (last_end st) (mflag st)) as [e0|?|sv0] eqn:E; try discriminate.
  all: try (inversion H; subst; right; assumption).
  all: destruct (HOK _ _ _ Hle E) as (a0 & b0 & Hs & _); rewrite Hs in H.
  all: destruct (a0 =? b0); try discriminate.
  all: destruct (match last_match st with Some lm => lm =? b0 | None => false end); try discriminate.
  eapply IH; eauto.
Qed.

(* ---------- the whole yielded sequence ---------- *)

(* strictly increasing starts, no overlap, never before the previous end; an Err item is last *)
Fixpoint chain (lb : nat) (l : list item) : Prop :=
  match l with
  | [] => True
  | ItOk a b sv :: r =>
      lb <= a /\ a <= b /\ b <= tlen /\ is_boundary tx a = true /\ is_boundary tx b = true /\
      span_of sv = Some (a, b) /\ chain (Nat.max b (S a)) r
  | ItErr e :: r => r = []
  end.

Lemma chain_weaken : forall l lb lb', lb' <= lb -> chain lb l -> chain lb' l.
Proof. destruct l as [|[e|a b sv] r]; simpl; intros; auto. intuition lia. Qed.

Lemma collect_after_err : forall n st e st',
  mnext st = (Some (ItErr e), st') -> e <> EFuel -> collect n st' = [].
Proof.
  intros n st e st' H He. destruct n; [reflexivity|]. cbn [Api.collect].
  apply matches_next_err in H. destruct H as [_ H]. specialize (H He).
  unfold Api.mnext. destruct (next_fuel tx st'); cbn [matches_next]; fold tlen;
    (destruct (Nat.ltb_spec tlen (last_end st')); [reflexivity|lia]).
Qed.

Hypothesis no_fuel_err : forall p f, search p f <> SErr EFuel.

Lemma mnext_no_fuel st st' : mnext st <> (Some (ItErr EFuel), st').
Proof.
  unfold Api.mnext, next_fuel. fold tlen.
  destruct (Nat.le_gt_cases (last_end st) tlen) as [Hle|Hgt].
  - destruct (matches_next_no_fuel_err (tlen + 2 - last_end st) st st') as [H|(p & f & H)];
      [lia|exact H|]. exfalso. eapply no_fuel_err; eauto.
  - destruct (tlen + 2 - last_end st); cbn [matches_next]; fold tlen;
      (destruct (Nat.ltb_spec tlen (last_end st)); [discriminate|lia]).
Qed.

Theorem collect_chain : forall n st, chain (last_end st) (collect n st).
Proof.
  induction n as [|n IH]; intros st; cbn [Api.collect]; [exact I|].
  destruct (mnext st) as [[[e|a b sv]|] st'] eqn:E; cbn [chain]; auto.
  - destruct (matches_next_err _ _ _ _ E) as [[->|_] _].
    + exfalso. eapply mnext_no_fuel; eauto.
    + eapply collect_after_err; eauto. intros ->. eapply mnext_no_fuel; eauto.
  - apply matches_next_step in E.
    destruct E as (A1 & A2 & A3 & A4 & A5 & A6 & A7 & A8 & A9 & A10).
    repeat split; auto.
    eapply chain_weaken; [|apply IH].
    destruct (Nat.eq_dec a b) as [->|Hne]; [specialize (A6 eq_refl); lia|lia].
Qed.

(* termination: at most |text| + 2 items, whatever the number of next() calls *)
Lemma chain_length : forall l lb, chain lb l -> lb <= tlen + 1 -> length l + lb <= tlen + 2.
Proof.
  induction l as [|[e|a b sv] r IH]; intros lb H Hlb; cbn [chain length] in *; [lia|subst; simpl; lia|].
  destruct H as (H1 & H2 & H3 & _ & _ & _ & H4). specialize (IH _ H4). lia.
Qed.

Theorem collect_length n : length (collect n m_init) <= tlen + 2.
Proof. pose proof (chain_length _ _ (collect_chain n m_init)). simpl in H. lia. Qed.

End ApiProofs.

(* ================= part 2: CaptureMatches, Split, SplitN, try_replacen ================= *)

Section ApiProofs2.
Variable tx : text.
Variable search : nat -> bool -> sres.
Let tlen := length tx.
Hypothesis HOK : SearchOK tx search.
Hypothesis no_fuel_err : forall p f, search p f <> SErr EFuel.
Hypothesis Hb0 : is_boundary tx 0 = true.

Notation mnext := (mnext tx search).
Notation collect := (collect tx search).

(* C09: the separately written CaptureMatches::next is Matches::next *)
Lemma cmatches_next_eq : forall fuel st, cmatches_next tx search fuel st = matches_next tx search fuel st.
Proof.
  induction fuel as [|f IH]; intros st; cbn [cmatches_next matches_next];
    destruct (length tx <? last_end st); auto.
  all: replace (match last_match st with
                | Some lm => if lm <? last_end st then true else false
                | None => false end)
         with (match last_match st with Some lm => lm <? last_end st | None => false end)
         by (destruct (last_match st) as [lm|]; auto; destruct (lm <? last_end st); auto).
  all: destruct (search (last_end st) _); auto.
  destruct (span_of saves) as [[a b]|]; auto. destruct (a =? b); auto.
  destruct (match last_match st with Some lm => lm =? b | None => false end); auto.
Qed.

Lemma cnext_eq st : cnext tx search st = mnext st.
Proof. unfold cnext, Api.mnext. apply cmatches_next_eq. Qed.

Lemma ccollect_eq : forall n st, ccollect tx search n st = collect n st.
Proof.
  induction n as [|n IH]; intros st; cbn [ccollect Api.collect]; auto.
  rewrite cmatches_next_eq. fold (Api.mnext tx search st).
  destruct (mnext st) as [[it|] st']; auto. now rewrite IH.
Qed.

(* ---------- complete runs of the iterator ---------- *)

(* from state st the iterator yields exactly the items l and then None *)
Inductive yields : mstate -> list item -> Prop :=
| y_nil st st' : mnext st = (None, st') -> yields st []
| y_cons st it st' l : mnext st = (Some it, st') -> yields st' l -> yields st (it :: l).

Lemma yields_collect : forall n st, length (collect n st) < n -> yields st (collect n st).
Proof.
  induction n as [|n IH]; intros st H; [simpl in H; lia|]. cbn [Api.collect] in *.
  destruct (mnext st) as [[it|] st'] eqn:E.
  - simpl in H. econstructor; eauto. apply IH. lia.
  - econstructor; eauto.
Qed.

Theorem yields_exists : exists l, yields m_init l /\ l = collect (tlen + 3) m_init.
Proof.
  eexists; split; [|reflexivity]. apply yields_collect.
  pose proof (collect_length tx search HOK no_fuel_err (tlen + 3)). fold tlen in H. lia.
Qed.

Lemma yields_det : forall st l, yields st l -> forall n, collect n st = firstn n l.
Proof.
  induction 1 as [st st' E|st it st' l E _ IH]; intros [|n]; cbn [Api.collect firstn]; auto;
    rewrite E; auto. now rewrite IH.
Qed.

Lemma mnext_done st st' : mnext st = (None, st') -> forall f, matches_next tx search f st' = (None, st').
Proof.
  intros H f. apply done_none. unfold Api.mnext in H. eapply matches_next_none; eauto.
Qed.

Lemma mnext_after_err st e st' : mnext st = (Some (ItErr e), st') -> mnext st' = (None, st').
Proof.
  intros H. assert (He : e <> EFuel) by (intros ->; eapply mnext_no_fuel; eauto).
  apply matches_next_err in H; auto. destruct H as [_ H]. specialize (H He).
  apply done_none. left. fold tlen. fold tlen in H. lia.
Qed.

(* ---------- Split ---------- *)

Definition pc_slice (lo hi : nat) : piece := slice_ok tx lo hi.

Fixpoint pieces (ns : nat) (l : list item) : list piece :=
  match l with
  | [] => [pc_slice ns tlen]
  | ItOk a b _ :: r => pc_slice ns a :: pieces b r
  | ItErr e :: _ => [PcErr e; pc_slice ns tlen]
  end.

Notation split_collect := (split_collect tx search).

Lemma split_after_end m ns n : ns = tlen + 1 -> mnext m = (None, m) ->
  split_collect n {| sp_m := m; sp_next := ns |} = [].
Proof.
  intros -> H. destruct n; cbn [Api.split_collect]; auto. unfold split_next. cbn [sp_m sp_next].
  rewrite H. fold tlen. destruct (Nat.ltb_spec tlen (tlen + 1)); [reflexivity|lia].
Qed.

Lemma mnext_none_idem st st' : mnext st = (None, st') -> mnext st' = (None, st').
Proof. intros H. unfold Api.mnext. eapply mnext_done; eauto. Qed.

Theorem split_pieces : forall l m ns, yields m l -> ns <= tlen ->
  forall n, split_collect n {| sp_m := m; sp_next := ns |} = firstn n (pieces ns l).
Proof.
  induction l as [|it l IH]; intros m ns Hy Hns n;
    inversion Hy as [? st' E|? ? st' ? E Hy']; subst.
  - destruct n; cbn [Api.split_collect firstn pieces]; auto.
    unfold split_next at 1. cbn [sp_m sp_next]. rewrite E. fold tlen.
    destruct (Nat.ltb_spec tlen ns); [lia|]. f_equal.
    rewrite split_after_end; [destruct n; reflexivity|reflexivity|eapply mnext_none_idem; eauto].
  - destruct n; cbn [Api.split_collect firstn]; auto.
    unfold split_next at 1. cbn [sp_m sp_next]. rewrite E.
    destruct it as [e|a b sv]; cbn [pieces firstn].
    + f_equal. pose proof (mnext_after_err _ _ _ E) as Hn.
      destruct n; cbn [Api.split_collect firstn]; auto.
      unfold split_next at 1. cbn [sp_m sp_next]. rewrite Hn. fold tlen.
      destruct (Nat.ltb_spec tlen ns); [lia|]. f_equal.
      rewrite split_after_end; auto. destruct n; reflexivity.
    + f_equal. apply IH; auto.
      apply matches_next_step in E; auto. fold tlen in E. intuition lia.
Qed.

(* with SearchOK every slice Split takes is in order, in range and on boundaries *)
Lemma pieces_safe : forall l ns, chain tx ns l -> ns <= tlen -> is_boundary tx ns = true ->
  Forall (fun p => p <> PcPanic) (pieces ns l).
Proof.
  assert (Hend : is_boundary tx tlen = true) by (unfold is_boundary, tlen; now rewrite Nat.eqb_refl).
  assert (Hs : forall lo hi, lo <= hi -> hi <= tlen -> is_boundary tx lo = true ->
               is_boundary tx hi = true -> pc_slice lo hi = PcOk lo hi).
  { intros lo hi H1 H2 H3 H4. unfold pc_slice, slice_ok. fold tlen.
    destruct (Nat.leb_spec lo hi); [|lia]. destruct (Nat.leb_spec hi tlen); [|lia].
    rewrite H3, H4. reflexivity. }
  induction l as [|[e|a b sv] r IH]; intros ns Hc Hns Hb; cbn [pieces chain] in *.
  - constructor; auto. rewrite Hs; auto; discriminate.
  - subst r. constructor; [discriminate|]. constructor; auto. rewrite Hs; auto; discriminate.
  - destruct Hc as (H1 & H2 & H3 & H4 & H5 & _ & H6). constructor.
    + rewrite Hs; auto; try lia; discriminate.
    + apply IH; auto. eapply chain_weaken; [|exact H6]. lia.
Qed.

(* rebuilding the text from the pieces and the matched texts *)
Fixpoint rebuild (ns : nat) (l : list item) : list nat :=
  match l with
  | [] => slice tx ns tlen
  | ItOk a b _ :: r => slice tx ns a ++ slice tx a b ++ rebuild b r
  | ItErr _ :: _ => []
  end.

Lemma slice_app t i j k : i <= j -> j <= k -> slice t i j ++ slice t j k = slice t i k.
Proof.
  intros H1 H2. unfold slice.
  replace (k - i) with ((j - i) + (k - j)) by lia.
  rewrite (firstn_add (skipn i t)). f_equal. rewrite skipn_add.
  replace (i + (j - i)) with j by lia. reflexivity.
Qed.

Lemma slice_to_end t i : slice t i (length t) = skipn i t.
Proof. unfold slice. rewrite <- (skipn_length i t). apply firstn_all. Qed.

Fixpoint no_err (l : list item) : Prop :=
  match l with [] => True | ItOk _ _ _ :: r => no_err r | ItErr _ :: _ => False end.

Theorem rebuild_text : forall l ns, chain tx ns l -> no_err l -> ns <= tlen -> rebuild ns l = skipn ns tx.
Proof.
  induction l as [|[e|a b sv] r IH]; intros ns Hc Hn Hns; cbn [rebuild chain no_err] in *.
  - apply slice_to_end.
  - contradiction.
  - destruct Hc as (H1 & H2 & H3 & _ & _ & _ & H6).
    rewrite IH; auto; [|eapply chain_weaken; [|exact H6]; lia].
    rewrite <- (slice_to_end tx b). rewrite !slice_app; auto; try lia. apply slice_to_end.
Qed.

Lemma pieces_count : forall l ns, no_err l -> length (pieces ns l) = S (length l).
Proof. induction l as [|[e|a b sv] r IH]; intros ns H; cbn [pieces no_err length] in *; auto; contradiction. Qed.

(* ---------- SplitN ---------- *)

Notation splitn_collect := (splitn_collect tx search).

(* where Split's next_start stands after k pieces of a complete error-free run *)
Fixpoint start_after (ns : nat) (l : list item) (k : nat) : nat :=
  match k, l with
  | 0, _ => ns
  | S k', ItOk _ b _ :: r => start_after b r k'
  | S _, _ => tlen + 1
  end.

Lemma splitn_next_last s :
  splitn_next tx search {| sn_s := s; sn_limit := 1 |} =
  if tlen <? sp_next s then (None, {| sn_s := s; sn_limit := 0 |})
  else (Some (pc_slice (sp_next s) tlen),
        {| sn_s := {| sp_m := sp_m s; sp_next := tlen + 1 |}; sn_limit := 0 |}).
Proof. reflexivity. Qed.

Lemma splitn_next_more s k :
  splitn_next tx search {| sn_s := s; sn_limit := S (S k) |} =
  let '(p, s') := split_next tx search s in (p, {| sn_s := s'; sn_limit := S k |}).
Proof. reflexivity. Qed.

Lemma splitn_collect_zero n s : splitn_collect n {| sn_s := s; sn_limit := 0 |} = [].
Proof. destruct n; reflexivity. Qed.

Lemma splitn_exhausted : forall j n m, mnext m = (None, m) ->
  splitn_collect n {| sn_s := {| sp_m := m; sp_next := tlen + 1 |}; sn_limit := j |} = [].
Proof.
  induction j as [|[|j] IH]; intros [|n] m Hm; cbn [Api.splitn_collect]; auto.
  - rewrite splitn_next_last. cbn [sp_next]. destruct (Nat.ltb_spec tlen (tlen + 1)); [reflexivity|lia].
  - rewrite splitn_next_more. unfold split_next. cbn [sp_m sp_next]. rewrite Hm. fold tlen.
    destruct (Nat.ltb_spec tlen (tlen + 1)); [reflexivity|lia].
Qed.

Theorem splitn_spec : forall k l m ns, yields m l -> no_err l -> ns <= tlen ->
  forall n, splitn_collect n {| sn_s := {| sp_m := m; sp_next := ns |}; sn_limit := k |} =
            firstn n (match k with
                      | 0 => []
                      | S k' => firstn k' (pieces ns l) ++
                                (if k' <=? length l then [pc_slice (start_after ns l k') tlen] else [])
                      end).
Proof.
  induction k as [|k IH]; intros l m ns Hy Hn Hns n.
  { rewrite splitn_collect_zero. destruct n; reflexivity. }
  destruct n; [reflexivity|]. cbn [Api.splitn_collect].
  destruct k as [|k'].
  - (* the Nth split: the remainder *)
    rewrite splitn_next_last. cbn [sp_next sp_m].
    destruct (Nat.ltb_spec tlen ns); [lia|].
    rewrite splitn_collect_zero. destruct l; destruct n; reflexivity.
  - rewrite splitn_next_more. unfold split_next. cbn [sp_m sp_next].
    inversion Hy as [? st' H|? it st' l0 H Hy']; subst.
    + rewrite H. fold tlen. destruct (Nat.ltb_spec tlen ns); [lia|].
      rewrite splitn_exhausted by (eapply mnext_none_idem; eauto).
      cbn [pieces length]. destruct k'; destruct n; reflexivity.
    + rewrite H. destruct it as [e|a b sv]; [cbn [no_err] in Hn; contradiction|].
      cbn [no_err] in Hn. cbn [pieces firstn app length start_after].
      apply matches_next_step in H as Hst; auto. fold tlen in Hst.
      rewrite (IH l0 st' b); auto.
      all: try reflexivity. all: intuition lia.
Qed.

(* ---------- try_replacen ---------- *)

Variable rep : list val -> list nat.

(* the documented result, as a function of the complete sequence of matches *)
Fixpoint rspec (limit i last : nat) (l : list item) (acc : list nat) : rres :=
  match l with
  | [] => match seg tx last tlen with Some s => ROwned (acc ++ s) | None => RPanicR end
  | ItErr e :: _ => RErr e
  | ItOk a b sv :: r =>
      if (0 <? limit) && (limit <=? i) then
        match seg tx last tlen with Some s => ROwned (acc ++ s) | None => RPanicR end
      else match seg tx last a with
           | None => RPanicR
           | Some s => rspec limit (S i) b r (acc ++ s ++ rep sv)
           end
  end.

Lemma replace_loop_spec : forall l fuel limit i cur st last acc,
  length l < fuel ->
  match cur with
  | None => l = [] /\ True
  | Some it => exists l', l = it :: l' /\ yields st l'
  end ->
  replace_loop tx rep mnext fuel limit i cur st last acc = rspec limit i last l acc.
Proof.
  induction l as [|it l IH]; intros fuel limit i cur st last acc Hf Hc.
  - destruct cur as [it|]; [destruct Hc as (l' & Hl & _); discriminate|].
    destruct fuel; reflexivity.
  - destruct cur as [it0|]; [|destruct Hc; discriminate].
    destruct Hc as (l' & Hl & Hy). inversion Hl; subst it0 l'.
    destruct fuel as [|f]; [simpl in Hf; lia|].
    destruct it as [e|a b sv]; cbn [replace_loop rspec]; auto.
    destruct ((0 <? limit) && (limit <=? i)); auto.
    destruct (seg tx last a); auto.
    inversion Hy as [? st1 H|? it1 st1 l1 H Hy']; subst.
    + rewrite H. apply (IH f limit (S i) None st1 b); [simpl in *; lia|auto].
    + rewrite H. apply (IH f limit (S i) (Some it1) st1 b); [simpl in *; lia|eauto].
Qed.

Theorem try_replacen_spec : forall l limit, yields m_init l ->
  try_replacen tx rep mnext limit = match l with [] => RBorrowed | _ => rspec limit 0 0 l [] end.
Proof.
  intros l limit Hy. unfold try_replacen. inversion Hy as [? st1 H|? it1 st1 l1 H Hy']; subst.
  - rewrite H. reflexivity.
  - rewrite H. apply replace_loop_spec; [|eauto].
    pose proof (yields_det _ _ Hy (tlen + 3)) as Hd.
    pose proof (collect_length tx search HOK no_fuel_err (tlen + 3)) as Hlen. fold tlen in Hlen.
    assert (length (it1 :: l1) <= tlen + 2).
    { destruct (Nat.le_gt_cases (length (it1 :: l1)) (tlen + 2)); auto.
      rewrite Hd in Hlen. rewrite firstn_length in Hlen. lia. }
    fold tlen. lia.
Qed.

(* the slow path (captures_iter) computes the same function as the fast path (find_iter) *)
Lemma replace_loop_paths limit : forall fuel i cur st last acc,
  replace_loop tx rep (cnext tx search) fuel limit i cur st last acc =
  replace_loop tx rep mnext fuel limit i cur st last acc.
Proof.
  induction fuel as [|f IH]; intros i cur st last acc; cbn [replace_loop]; auto.
  destruct cur as [[e|a b sv]|]; auto. destruct ((0 <? limit) && (limit <=? i)); auto.
  destruct (seg tx last a); auto. rewrite cnext_eq. destruct (mnext st). apply IH.
Qed.

Theorem try_replacen_paths_agree limit :
  try_replacen tx rep (cnext tx search) limit = try_replacen tx rep mnext limit.
Proof.
  unfold try_replacen. rewrite cnext_eq. destruct (mnext m_init) as [[it|] st]; auto.
  apply replace_loop_paths.
Qed.

(* no slice of try_replacen panics *)
Lemma rspec_safe : forall l limit i last acc, chain tx last l -> last <= tlen -> is_boundary tx last = true ->
  rspec limit i last l acc <> RPanicR.
Proof.
  assert (Hend : is_boundary tx tlen = true) by (unfold is_boundary, tlen; now rewrite Nat.eqb_refl).
  assert (Hs : forall lo hi, lo <= hi -> hi <= tlen -> is_boundary tx lo = true ->
               is_boundary tx hi = true -> seg tx lo hi = Some (slice tx lo hi)).
  { intros lo hi H1 H2 H3 H4. unfold seg. fold tlen.
    destruct (Nat.leb_spec lo hi); [|lia]. destruct (Nat.leb_spec hi tlen); [|lia].
    rewrite H3, H4. reflexivity. }
  induction l as [|[e|a b sv] r IH]; intros limit i last acc Hc Hl Hb; cbn [rspec chain] in *.
  - rewrite Hs; auto; discriminate.
  - discriminate.
  - destruct Hc as (H1 & H2 & H3 & H4 & H5 & _ & H6).
    destruct ((0 <? limit) && (limit <=? i)); [rewrite Hs; auto; discriminate|].
    rewrite Hs; auto; try lia. apply IH; auto. eapply chain_weaken; [|exact H6]. lia.
Qed.

End ApiProofs2.
