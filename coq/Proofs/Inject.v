(* Inject.v — C03 at the level of the reference semantics: inserting the empty positive
   look-ahead (?=) before or after any sub-expression, at any depth and at any number of sites,
   changes neither the group numbering nor the denotation. *)
From FR Require Import Base Utf8 Ast Analyze Sem ExprLemmas SemSound.
From Coq Require Import Lia.

Definition LA : expr := LookAround Empty LookAhead.

Definition is_behind (la : lookkind) : bool :=
  match la with LookBehind | LookBehindNeg => true | _ => false end.

Inductive inj : expr -> expr -> Prop :=
| inj_same e : inj e e
| inj_before e e' : inj e e' -> inj e (Concat [LA; e'])
| inj_after e e' : inj e e' -> inj e (Concat [e'; LA])
| inj_insert l1 l2 l1' l2' : Forall2 inj l1 l1' -> Forall2 inj l2 l2' ->
    inj (Concat (l1 ++ l2)) (Concat (l1' ++ LA :: l2'))
| inj_concat es es' : Forall2 inj es es' -> inj (Concat es) (Concat es')
| inj_alt es es' : Forall2 inj es es' -> inj (Alt es) (Alt es')
| inj_group e e' : inj e e' -> inj (Group e) (Group e')
| inj_look e e' la : inj e e' ->
    (is_behind la = true -> is_alt e' = is_alt e /\ const_size e' = const_size e) ->
    inj (LookAround e la) (LookAround e' la)
| inj_repeat e e' lo hi gr : inj e e' -> inj (Repeat e lo hi gr) (Repeat e' lo hi gr)
| inj_atomic e e' : inj e e' -> inj (AtomicGroup e) (AtomicGroup e')
| inj_cond c c' y y' n n' : inj c c' -> inj y y' -> inj n n' ->
    inj (Conditional c y n) (Conditional c' y' n').

Section InjInd.
Variable P : expr -> expr -> Prop.
Hypothesis Psame : forall e, P e e.
Hypothesis Pbefore : forall e e', inj e e' -> P e e' -> P e (Concat [LA; e']).
Hypothesis Pafter : forall e e', inj e e' -> P e e' -> P e (Concat [e'; LA]).
Hypothesis Pinsert : forall l1 l2 l1' l2', Forall2 inj l1 l1' -> Forall2 P l1 l1' ->
  Forall2 inj l2 l2' -> Forall2 P l2 l2' -> P (Concat (l1 ++ l2)) (Concat (l1' ++ LA :: l2')).
Hypothesis Pconcat : forall es es', Forall2 inj es es' -> Forall2 P es es' -> P (Concat es) (Concat es').
Hypothesis Palt : forall es es', Forall2 inj es es' -> Forall2 P es es' -> P (Alt es) (Alt es').
Hypothesis Pgroup : forall e e', inj e e' -> P e e' -> P (Group e) (Group e').
Hypothesis Plook : forall e e' la, inj e e' -> P e e' ->
  (is_behind la = true -> is_alt e' = is_alt e /\ const_size e' = const_size e) ->
  P (LookAround e la) (LookAround e' la).
Hypothesis Prepeat : forall e e' lo hi gr, inj e e' -> P e e' -> P (Repeat e lo hi gr) (Repeat e' lo hi gr).
Hypothesis Patomic : forall e e', inj e e' -> P e e' -> P (AtomicGroup e) (AtomicGroup e').
Hypothesis Pcond : forall c c' y y' n n', inj c c' -> P c c' -> inj y y' -> P y y' -> inj n n' -> P n n' ->
  P (Conditional c y n) (Conditional c' y' n').

Fixpoint inj_ind' (e e' : expr) (H : inj e e') {struct H} : P e e' :=
  let fix go (l l' : list expr) (HF : Forall2 inj l l') {struct HF} : Forall2 P l l' :=
    match HF in Forall2 _ l l' return Forall2 P l l' with
    | Forall2_nil _ => Forall2_nil P
    | Forall2_cons x y Hxy Hr => Forall2_cons x y (inj_ind' x y Hxy) (go _ _ Hr)
    end in
  match H in inj e e' return P e e' with
  | inj_same e => Psame e
  | inj_before e e' H1 => Pbefore e e' H1 (inj_ind' e e' H1)
  | inj_after e e' H1 => Pafter e e' H1 (inj_ind' e e' H1)
  | inj_insert l1 l2 l1' l2' H1 H2 => Pinsert l1 l2 l1' l2' H1 (go _ _ H1) H2 (go _ _ H2)
  | inj_concat es es' H1 => Pconcat es es' H1 (go _ _ H1)
  | inj_alt es es' H1 => Palt es es' H1 (go _ _ H1)
  | inj_group e e' H1 => Pgroup e e' H1 (inj_ind' e e' H1)
  | inj_look e e' la H1 H2 => Plook e e' la H1 (inj_ind' e e' H1) H2
  | inj_repeat e e' lo hi gr H1 => Prepeat e e' lo hi gr H1 (inj_ind' e e' H1)
  | inj_atomic e e' H1 => Patomic e e' H1 (inj_ind' e e' H1)
  | inj_cond c c' y y' n n' H1 H2 H3 =>
      Pcond c c' y y' n n' H1 (inj_ind' c c' H1) H2 (inj_ind' y y' H2) H3 (inj_ind' n n' H3)
  end.
End InjInd.

Section Inj.
Variable cx : ctx.

Definition same (e e' : expr) : Prop :=
  ngroups e' = ngroups e /\ forall fuel g st, sem cx e' fuel g st = sem cx e fuel g st.

Lemma sem_LA fuel g st : sem cx LA fuel g st = [st].
Proof. destruct st as [ix caps]. reflexivity. Qed.

Lemma flat_map_single {A} (l : list A) : flat_map (fun x => [x]) l = l.
Proof. induction l; simpl; congruence. Qed.

Lemma same_list es es' : Forall2 same es es' ->
  ngroups_list es' = ngroups_list es /\
  forall fuel g st, sem_cat cx fuel g es' st = sem_cat cx fuel g es st.
Proof.
  induction 1 as [|x x' r r' [Hn Hs] _ [IHn IHs]]; [split; auto|].
  cbn [ngroups_list fold_right] in *. split; [unfold ngroups_list in *; simpl; lia|].
  intros fuel g st. cbn [sem_cat]. rewrite Hs, Hn. apply flat_map_ext. intros a. apply IHs.
Qed.

Lemma same_alts es es' : Forall2 same es es' ->
  forall fuel g st, sem_alts cx fuel g es' st = sem_alts cx fuel g es st.
Proof.
  induction 1 as [|x x' r r' [Hn Hs] _ IH]; intros fuel g st; [reflexivity|].
  cbn [sem_alts]. now rewrite Hs, Hn, IH.
Qed.

Lemma flat_map_assoc {A B C} (f : B -> list C) (h : A -> list B) (l : list A) :
  flat_map f (flat_map h l) = flat_map (fun a => flat_map f (h a)) l.
Proof. induction l as [|a l IH]; simpl; auto. now rewrite flat_map_app, IH. Qed.

Lemma sem_cat_app fuel : forall l1 l2 g st,
  sem_cat cx fuel g (l1 ++ l2) st =
  flat_map (sem_cat cx fuel (g + ngroups_list l1) l2) (sem_cat cx fuel g l1 st).
Proof.
  induction l1 as [|x r IH]; intros l2 g st; cbn [app sem_cat].
  - unfold ngroups_list. simpl. rewrite Nat.add_0_r, app_nil_r. reflexivity.
  - rewrite flat_map_assoc. apply flat_map_ext. intros a. rewrite IH.
    unfold ngroups_list. simpl. now rewrite Nat.add_assoc.
Qed.

Lemma Forall2_app_len {A B} (R : A -> B -> Prop) l1 l1' : Forall2 R l1 l1' -> length l1 = length l1'.
Proof. induction 1; simpl; auto. Qed.

Lemma first_some_ext {A B} (f h : A -> option B) l : (forall a, f a = h a) -> first_some f l = first_some h l.
Proof. intros H. induction l as [|a l IH]; simpl; auto. now rewrite H, IH. Qed.

(* the look-behind part of sem only looks at the alternatives of its body *)
Lemma lookbehind_same e e' la : is_behind la = true -> is_alt e' = is_alt e ->
  const_size e' = const_size e -> same e e' ->
  (forall es es', e = Alt es -> e' = Alt es' -> Forall2 same es es') ->
  forall fuel g st, sem cx (LookAround e' la) fuel g st = sem cx (LookAround e la) fuel g st.
Proof.
  intros Hb Ha Hcs [Hn Hs] Halts fuel g [ix caps].
  assert (Hfound :
    match e' with
    | Alt es =>
        (fix go (g : nat) (l : list expr) : option sst :=
           match l with
           | [] => None
           | x :: r => match first_some (fun j => first_ending (sem cx x fuel g (j, caps)) ix) (backs cx ix ix)
                       with Some s => Some s | None => go (g + ngroups x) r end
           end) g es
    | _ => first_some (fun j => first_ending (sem cx e' fuel g (j, caps)) ix) (backs cx ix ix)
    end =
    match e with
    | Alt es =>
        (fix go (g : nat) (l : list expr) : option sst :=
           match l with
           | [] => None
           | x :: r => match first_some (fun j => first_ending (sem cx x fuel g (j, caps)) ix) (backs cx ix ix)
                       with Some s => Some s | None => go (g + ngroups x) r end
           end) g es
    | _ => first_some (fun j => first_ending (sem cx e fuel g (j, caps)) ix) (backs cx ix ix)
    end).
  { destruct e; destruct e'; simpl in Ha; try discriminate;
      try reflexivity; try (apply first_some_ext; intros j; rewrite Hs; reflexivity).
    match type of Halts with forall es es', Alt ?a = Alt es -> Alt ?b = Alt es' -> _ =>
      specialize (Halts a b eq_refl eq_refl) end.
    clear - Halts. revert g.
    induction Halts as [|x x' r r' [Hnx Hsx] _ IH]; intros g; auto.
    rewrite Hnx, IH. erewrite first_some_ext; [reflexivity|]. intros j. now rewrite Hsx. }
  assert (Hsplit :
    match e' with
    | Alt es =>
        (fix go (g : nat) (l : list expr) : list sst :=
           match l with
           | [] => []
           | x :: r => match first_some (fun j => first_ending (sem cx x fuel g (j, caps)) ix) (backs cx ix ix)
                       with Some s => [(ix, snd s)] | None => [] end ++ go (g + ngroups x) r
           end) g es
    | _ => []
    end =
    match e with
    | Alt es =>
        (fix go (g : nat) (l : list expr) : list sst :=
           match l with
           | [] => []
           | x :: r => match first_some (fun j => first_ending (sem cx x fuel g (j, caps)) ix) (backs cx ix ix)
                       with Some s => [(ix, snd s)] | None => [] end ++ go (g + ngroups x) r
           end) g es
    | _ => []
    end).
  { destruct e; destruct e'; simpl in Ha; try discriminate; try reflexivity.
    match type of Halts with forall es es', Alt ?a = Alt es -> Alt ?b = Alt es' -> _ =>
      specialize (Halts a b eq_refl eq_refl) end.
    clear - Halts. revert g.
    induction Halts as [|x x' r r' [Hnx Hsx] _ IH]; intros g; auto.
    rewrite Hnx, IH. erewrite first_some_ext; [reflexivity|]. intros j. now rewrite Hsx. }
  destruct la; try discriminate; cbn [sem]; rewrite Hfound, ?Hsplit, ?Ha, ?Hcs; reflexivity.
Qed.

Lemma sem_cat_LA fuel g l st : sem_cat cx fuel g (LA :: l) st = sem_cat cx fuel g l st.
Proof. cbn [sem_cat]. rewrite sem_LA. simpl. rewrite app_nil_r, Nat.add_0_r. reflexivity. Qed.

Lemma sem_cat_single fuel g e st : sem_cat cx fuel g [e] st = sem cx e fuel g st.
Proof. cbn [sem_cat]. apply flat_map_single. Qed.

Lemma ngroups_list_app l1 l2 : ngroups_list (l1 ++ l2) = ngroups_list l1 + ngroups_list l2.
Proof. unfold ngroups_list. induction l1; simpl; auto. lia. Qed.

Lemma rep_must_ext (b b' : sst -> list sst) : (forall s, b s = b' s) ->
  forall n st, rep_must b n st = rep_must b' n st.
Proof.
  intros H. induction n as [|n IH]; intros st; cbn [rep_must]; auto.
  rewrite H. apply flat_map_ext. auto.
Qed.
Lemma rep_opt_b_ext (b b' : sst -> list sst) gr : (forall s, b s = b' s) ->
  forall n st, rep_opt_b b gr n st = rep_opt_b b' gr n st.
Proof.
  intros H. induction n as [|n IH]; intros st; cbn [rep_opt_b]; auto.
  rewrite H. erewrite flat_map_ext; [reflexivity|]. auto.
Qed.
Lemma rep_opt_u_ext (b b' : sst -> list sst) gr : (forall s, b s = b' s) ->
  forall n st, rep_opt_u b gr n st = rep_opt_u b' gr n st.
Proof.
  intros H. induction n as [|n IH]; intros st; cbn [rep_opt_u]; auto.
  rewrite H. erewrite flat_map_ext; [reflexivity|]. intros a. cbn beta. now rewrite IH.
Qed.

Definition same2 (e e' : expr) : Prop :=
  same e e' /\ forall es es', e = Alt es -> e' = Alt es' -> Forall2 same es es'.

Lemma same_refl_list es : Forall2 same es es.
Proof. induction es; constructor; auto. split; auto. Qed.

Lemma same2_list es es' : Forall2 same2 es es' -> Forall2 same es es'.
Proof. induction 1 as [|x y r r' [H _] _ IH]; constructor; auto. Qed.

Lemma inj_same2 : forall e e', inj e e' -> same2 e e'.
Proof.
  intros e e' H. induction H using inj_ind'.
  - split; [split; auto|]. intros es es' -> E. inversion E; subst. apply same_refl_list.
  - destruct IHinj as [[Hn Hs] _]. split; [|intros; discriminate]. split; [simpl; lia|].
    intros fuel g st. now rewrite sem_concat_eq, sem_cat_LA, sem_cat_single.
  - destruct IHinj as [[Hn Hs] _]. split; [|intros; discriminate]. split; [simpl; lia|].
    intros fuel g st. rewrite sem_concat_eq. cbn [sem_cat]. rewrite Hs.
    erewrite flat_map_ext; [apply flat_map_single|]. intros a.
    change (sem_cat cx fuel (g + ngroups e') [LA] a = [a]). now rewrite sem_cat_LA.
  - apply same2_list in H0. apply same2_list in H2.
    destruct (same_list _ _ H0) as [Hn1 Hs1]. destruct (same_list _ _ H2) as [Hn2 Hs2].
    split; [|intros; discriminate]. split.
    + rewrite !ngroups_concat, !ngroups_list_app. change (LA :: l2') with ([LA] ++ l2').
      rewrite ngroups_list_app. unfold ngroups_list at 2. simpl. lia.
    + intros fuel g st. rewrite !sem_concat_eq, !sem_cat_app. rewrite Hn1.
      erewrite flat_map_ext; [rewrite Hs1; reflexivity|]. intros a. rewrite sem_cat_LA. apply Hs2.
  - apply same2_list in H0. destruct (same_list _ _ H0) as [Hn1 Hs1].
    split; [|intros; discriminate]. split; [now rewrite !ngroups_concat|].
    intros fuel g st. now rewrite !sem_concat_eq.
  - apply same2_list in H0. destruct (same_list _ _ H0) as [Hn1 _].
    split; [|intros a b E1 E2; inversion E1; inversion E2; subst; exact H0].
    split; [now rewrite !ngroups_alt|].
    intros fuel g st. rewrite !sem_alt_eq. now apply same_alts.
  - destruct IHinj as [[Hn Hs] _]. split; [|intros; discriminate]. split; [simpl; lia|].
    intros fuel g [ix caps]. cbn [sem]. now rewrite Hs.
  - destruct IHinj as [[Hn Hs] Halts]. split; [|intros; discriminate]. split; [simpl; lia|].
    destruct la.
    + intros fuel g [ix caps]. cbn [sem]. now rewrite Hs.
    + intros fuel g [ix caps]. cbn [sem]. now rewrite Hs.
    + apply lookbehind_same; [reflexivity|apply H0; reflexivity|apply H0; reflexivity|split; auto|exact Halts].
    + apply lookbehind_same; [reflexivity|apply H0; reflexivity|apply H0; reflexivity|split; auto|exact Halts].
  - destruct IHinj as [[Hn Hs] _]. split; [|intros; discriminate]. split; [simpl; lia|].
    intros fuel g [ix caps]. cbn [sem].
    rewrite (rep_must_ext (sem cx e' fuel g) (sem cx e fuel g)) by (intros; apply Hs).
    apply flat_map_ext. intros a. destruct (N.eqb hi usize_max).
    + apply rep_opt_u_ext. intros; apply Hs.
    + apply rep_opt_b_ext. intros; apply Hs.
  - destruct IHinj as [[Hn Hs] _]. split; [|intros; discriminate]. split; [simpl; lia|].
    intros fuel g [ix caps]. cbn [sem]. now rewrite Hs.
  - destruct IHinj1 as [[Hn1 Hs1] _]. destruct IHinj2 as [[Hn2 Hs2] _]. destruct IHinj3 as [[Hn3 Hs3] _].
    split; [|intros; discriminate]. split; [simpl; lia|].
    intros fuel g [ix caps]. cbn [sem]. rewrite Hs1, Hn1, Hn2.
    destruct (sem cx c fuel g (ix, caps)); [apply Hs3|apply Hs2].
Qed.

Theorem inj_same_sem : forall e e', inj e e' -> same e e'.
Proof. intros e e' H. apply (proj1 (inj_same2 e e' H)). Qed.

End Inj.

(* the whole search is unchanged: same match, same capture groups *)
Theorem inj_search cx e e' fuel : inj e e' -> search_list cx e' fuel = search_list cx e fuel.
Proof.
  intros H. pose proof (inj_same_sem cx _ _ H) as [Hn Hs].
  assert (Hw : same cx (wrap e) (wrap e')).
  { apply inj_same_sem. unfold wrap. apply inj_concat. constructor; [apply inj_same|].
    constructor; [|constructor]. apply inj_group. exact H. }
  destruct Hw as [Hnw Hsw]. unfold search_list. now rewrite Hsw, Hn.
Qed.
