(* GoBack.v — the GoBack(n) instruction steps back exactly n characters from a boundary, and
   fails (rather than reading before the start of the text) iff fewer than n precede. *)
From FR Require Import Base Utf8 Utf8Facts Chars Ast Sem Vm.
From Coq Require Import Lia NArith.

Section GoBack.
Variable cs : list (list nat).
Hypothesis W : valid_chars cs.
Variable cx : ctx.
Hypothesis Htext : c_text cx = concat cs.
Let t := concat cs.

(* the last step of any non-empty walk ending at ix starts at the previous boundary *)
Lemma dist_last j ix n p b : dist cs j ix (S n) -> bnd cs p -> nth_error t p = Some b ->
  p + cp_len b = ix -> dist cs j p n.
Proof.
  intros D Bp Ep Hp. inversion D as [|j0 q m b' D' E']; subst.
  destruct (dist_bnd cs W _ _ _ D') as (_ & Bq & _).
  destruct (Nat.lt_trichotomy p q) as [Hlt|[->|Hgt]]; auto.
  - exfalso. apply (no_bnd_inside cs W p b q Bp Ep); auto. pose proof (cp_len_cases b'). lia.
  - exfalso. apply (no_bnd_inside cs W q b' p Bq E'); auto. pose proof (cp_len_cases b). lia.
Qed.

Theorem goback_sound : forall fuel cnt ix, bnd cs ix -> ix <= fuel ->
  match goback cx fuel cnt ix with
  | GBOk j => exists n, N.of_nat n = cnt /\ dist cs j ix n
  | GBFail => forall j n, dist cs j ix n -> (N.of_nat n < cnt)%N
  | GBPanic => False
  end.
Proof.
  induction fuel as [|f IH]; intros cnt ix B Hf; cbn [goback].
  - destruct (N.eqb_spec cnt 0) as [->|Hc].
    + exists 0. split; auto. now constructor.
    + assert (ix = 0) by lia. subst. intros j n D. apply dist_ge in D. assert (n = 0) by lia. subst. lia.
  - destruct (N.eqb_spec cnt 0) as [->|Hc].
    + exists 0. split; auto. now constructor.
    + destruct (Nat.eqb_spec ix 0) as [->|Hix].
      * intros j n D. apply dist_ge in D. assert (n = 0) by lia. subst. lia.
      * rewrite Htext. fold t.
        destruct (step_back cs ix W B ltac:(lia)) as (p & b & Hp & Bp & Ep & Hpe). fold t in Hp, Ep.
        rewrite Hp. pose proof (cp_len_cases b).
        specialize (IH (N.pred cnt) p Bp ltac:(lia)).
        destruct (goback cx f (N.pred cnt) p) as [j| |].
        -- destruct IH as (n & Hn & D). exists (S n). split; [lia|].
           rewrite <- Hpe. econstructor; eauto.
        -- intros j n D. destruct n as [|n]; [lia|].
           pose proof (dist_last j ix n p b D Bp Ep Hpe) as D'. specialize (IH _ _ D'). lia.
        -- exact IH.
Qed.

End GoBack.
