(* SemSound.v — C13/C05 at the level of the reference semantics: on valid UTF-8 text every result
   of [sem] stays on character boundaries (offsets and capture slots), moves forward, and the
   static size facts are sound: no sub-expression matches fewer characters than min_size, nor a
   different number when const_size holds. *)
From FR Require Import Base Utf8 Utf8Facts Chars Ast Analyze Sem ExprLemmas.
From Coq Require Import Lia NArith.

(* ---------- well-formed patterns (what the parser produces) ---------- *)
Fixpoint wfe (e : expr) : Prop :=
  match e with
  | Literal v _ => wf_char v
  | Delegate _ size _ (DClass _) => size = 1%N
  | Delegate _ size _ DNlStarEnd => size = 0%N
  | Concat es | Alt es => (fix go (l : list expr) : Prop := match l with [] => True | x :: r => wfe x /\ go r end) es
  | Group c | LookAround c _ | Repeat c _ _ _ | AtomicGroup c => wfe c
  | Conditional c y n => wfe c /\ wfe y /\ wfe n
  | _ => True
  end.

(* the "\n*$" helper node only occurs directly under a look-around (how \Z is parsed) *)
Fixpoint zok (e : expr) : Prop :=
  match e with
  | Delegate _ _ _ DNlStarEnd => False
  | LookAround (Delegate _ _ _ DNlStarEnd) _ => True
  | Concat es | Alt es => (fix go (l : list expr) : Prop := match l with [] => True | x :: r => zok x /\ go r end) es
  | Group c | LookAround c _ | Repeat c _ _ _ | AtomicGroup c => zok c
  | Conditional c y n => zok c /\ zok y /\ zok n
  | _ => True
  end.

Fixpoint wfe_list (l : list expr) : Prop := match l with [] => True | x :: r => wfe x /\ wfe_list r end.
Fixpoint zok_list (l : list expr) : Prop := match l with [] => True | x :: r => zok x /\ zok_list r end.
Lemma wfe_concat es : wfe (Concat es) = wfe_list es. Proof. induction es; simpl in *; congruence. Qed.
Lemma wfe_alt es : wfe (Alt es) = wfe_list es. Proof. induction es; simpl in *; congruence. Qed.
Lemma zok_concat es : zok (Concat es) = zok_list es. Proof. induction es; simpl in *; congruence. Qed.
Lemma zok_alt es : zok (Alt es) = zok_list es. Proof. induction es; simpl in *; congruence. Qed.

(* ---------- list views of sem and the size functions ---------- *)
Section Views.
Variable cx : ctx.

Fixpoint sem_cat (fuel g : nat) (l : list expr) (st : sst) : list sst :=
  match l with
  | [] => [st]
  | x :: r => flat_map (sem_cat fuel (g + ngroups x) r) (sem cx x fuel g st)
  end.
Lemma sem_concat_eq es fuel g st : sem cx (Concat es) fuel g st = sem_cat fuel g es st.
Proof.
  destruct st as [ix caps]. cbn [sem]. generalize (ix, caps). revert g.
  induction es as [|x r IH]; intros g s; cbn [sem_cat]; auto.
  apply flat_map_ext. intros a. apply IH.
Qed.

Fixpoint sem_alts (fuel g : nat) (l : list expr) (st : sst) : list sst :=
  match l with
  | [] => []
  | x :: r => sem cx x fuel g st ++ sem_alts fuel (g + ngroups x) r st
  end.
Lemma sem_alt_eq es fuel g st : sem cx (Alt es) fuel g st = sem_alts fuel g es st.
Proof.
  destruct st as [ix caps]. cbn [sem]. revert g.
  induction es as [|x r IH]; intros g; cbn [sem_alts]; auto. f_equal; apply IH.
Qed.
End Views.

Fixpoint min_cat (l : list expr) (acc : N) : N :=
  match l with [] => acc | x :: r => min_cat r (sat_add acc (min_size x)) end.
Lemma min_concat es : min_size (Concat es) = min_cat es 0%N.
Proof. cbn [min_size]. generalize 0%N. induction es as [|x r IH]; intros a; cbn [min_cat]; auto. Qed.

Fixpoint const_cat (l : list expr) : bool := match l with [] => true | x :: r => const_size x && const_cat r end.
Lemma const_concat es : const_size (Concat es) = const_cat es.
Proof. induction es as [|x r IH]; [reflexivity|]. cbn [const_cat]. rewrite <- IH. reflexivity. Qed.

Fixpoint sum_min (l : list expr) : N := match l with [] => 0%N | x :: r => (min_size x + sum_min r)%N end.

Lemma sat_add_le a b : (sat_add a b <= a + b)%N.
Proof. unfold sat_add. apply N.le_min_l. Qed.
Lemma sat_add_exact a b : (a + b <= usize_max)%N -> sat_add a b = (a + b)%N.
Proof. unfold sat_add. intros. apply N.min_l; auto. Qed.
Lemma sat_mul_le a b : (sat_mul a b <= a * b)%N.
Proof. unfold sat_mul. apply N.le_min_l. Qed.
Lemma sat_mul_exact a b : (a * b <= usize_max)%N -> sat_mul a b = (a * b)%N.
Proof. unfold sat_mul. intros. apply N.min_l; auto. Qed.

Lemma min_cat_le : forall l acc, (min_cat l acc <= acc + sum_min l)%N.
Proof.
  induction l as [|x r IH]; intros acc; cbn [min_cat sum_min]; [lia|].
  etransitivity; [apply IH|]. pose proof (sat_add_le acc (min_size x)). lia.
Qed.
Lemma min_cat_exact : forall l acc, (acc + sum_min l <= usize_max)%N -> min_cat l acc = (acc + sum_min l)%N.
Proof.
  induction l as [|x r IH]; intros acc H; cbn [min_cat sum_min] in *; [lia|].
  rewrite sat_add_exact by lia. rewrite IH by lia. lia.
Qed.

(* Alt *)
Fixpoint min_alts (l : list expr) (acc : N) : N :=
  match l with [] => acc | y :: r => min_alts r (N.min acc (min_size y)) end.
Fixpoint const_alts (l : list expr) (m : N) (csz : bool) : bool :=
  match l with
  | [] => csz
  | y :: r => const_alts r (N.min m (min_size y)) (csz && (const_size y && N.eqb m (min_size y)))
  end.
Lemma min_alt_eq x r : min_size (Alt (x :: r)) = min_alts r (min_size x).
Proof. cbn [min_size]. generalize (min_size x). induction r as [|y r IH]; intros a; cbn [min_alts]; auto. Qed.
Lemma const_alt_eq x r : const_size (Alt (x :: r)) = const_alts r (min_size x) (const_size x).
Proof.
  cbn [const_size]. generalize (min_size x) (const_size x).
  induction r as [|y r IH]; intros a b; cbn [const_alts]; auto.
Qed.

Lemma min_alts_le_acc : forall l acc, (min_alts l acc <= acc)%N.
Proof. induction l as [|y r IH]; intros acc; cbn [min_alts]; [lia|]. etransitivity; [apply IH|]. lia. Qed.
Lemma min_alts_le_in : forall l acc y, In y l -> (min_alts l acc <= min_size y)%N.
Proof.
  induction l as [|z r IH]; intros acc y H; [destruct H|]. cbn [min_alts]. destruct H as [->|H].
  - etransitivity; [apply min_alts_le_acc|]. lia.
  - apply IH; auto.
Qed.
Lemma const_alts_false : forall l m, const_alts l m false = false.
Proof. induction l as [|y r IH]; intros m; cbn [const_alts]; auto. Qed.
Lemma const_alts_true : forall l m csz, const_alts l m csz = true ->
  csz = true /\ min_alts l m = m /\ forall y, In y l -> const_size y = true /\ min_size y = m.
Proof.
  induction l as [|z r IH]; intros m csz H; cbn [const_alts min_alts] in *.
  - split; [auto|]. split; [auto|]. intros y0 [].
  - destruct csz; [|rewrite const_alts_false in H; discriminate]. cbn [andb] in H.
    destruct (const_size z) eqn:Ez; [|rewrite const_alts_false in H; discriminate]. cbn [andb] in H.
    destruct (N.eqb_spec m (min_size z)) as [Em|]; [|rewrite const_alts_false in H; discriminate].
    rewrite <- Em in *. rewrite N.min_id in *. destruct (IH _ _ H) as (_ & H2 & H3).
    split; [auto|]. split; [auto|]. intros y0 [<-|Hy]; auto.
Qed.

(* ---------- the invariant and the soundness statement ---------- *)
Section Sound.
Variable cs : list (list nat).
Hypothesis W : valid_chars cs.
Variable cx : ctx.
Hypothesis Htext : c_text cx = concat cs.
Let t := concat cs.
(* a Rust string is shorter than 2^64 bytes *)
Hypothesis Hlen : (N.of_nat (length t) < usize_max)%N.

Definition val_ok (v : val) : Prop := match v with MAXV => True | V p => bnd cs p end.
Definition st_ok (st : sst) : Prop := bnd cs (fst st) /\ Forall val_ok (snd st).

Definition adv (st st' : sst) (n : nat) : Prop := st_ok st' /\ dist cs (fst st) (fst st') n.

(* what a result st' of e from st must satisfy *)
Definition good (e : expr) (st st' : sst) : Prop :=
  exists n, adv st st' n /\ (min_size e <= N.of_nat n)%N /\
            (zok e -> const_size e = true -> N.of_nat n = min_size e).

Lemma adv_refl st : st_ok st -> adv st st 0.
Proof. intros H. split; auto. constructor. apply H. Qed.

Lemma adv_trans a b c n m : adv a b n -> adv b c m -> adv a c (n + m).
Proof. intros [_ D1] [H2 D2]. split; auto. eapply dist_trans; eauto. Qed.

Lemma adv_bound a b n : adv a b n -> (N.of_nat n < usize_max)%N.
Proof.
  intros [[Hb _] D]. pose proof (dist_ge cs _ _ _ D). pose proof (bnd_le _ _ Hb). fold t in H0. lia.
Qed.

Lemma adv_zero_eq a b : adv a b 0 -> fst b = fst a.
Proof. intros [_ D]. inversion D; auto. Qed.

Lemma val_ok_upd caps i v : Forall val_ok caps -> val_ok v -> Forall val_ok (upd caps i v).
Proof.
  revert i; induction caps as [|x l IH]; intros i H Hv; destruct i; simpl; auto;
    inversion H; subst; constructor; auto.
Qed.

Lemma val_ok_getcap caps i : Forall val_ok caps -> val_ok (getcap caps i).
Proof.
  intros H. unfold getcap. destruct (nth_error caps i) eqn:E; [|exact I].
  rewrite Forall_forall in H. apply H. eapply nth_error_In; eauto.
Qed.

Lemma text_eq : c_text cx = t. Proof. exact Htext. Qed.

(* one cursor step from a boundary *)
Lemma step1 ix caps b : st_ok (ix, caps) -> nth_error t ix = Some b ->
  adv (ix, caps) (ix + cp_len b, caps) 1.
Proof.
  intros [Hb Hc] E. cbn [fst snd] in *.
  assert (Hlt : ix < length t) by (apply nth_error_Some; congruence).
  destruct (step_fwd cs ix W Hb Hlt) as (b' & E' & _ & Bn). fold t in E'.
  assert (b' = b) by congruence. subst. split; [split; auto|]. cbn [fst]. apply dist_step; auto.
Qed.

Lemma decode_len s i cp len : decode_at s i = Some (cp, len) ->
  exists b, nth_error s i = Some b /\ len = cp_len b.
Proof.
  unfold decode_at. destruct (nth_error s i) as [b|]; [|discriminate]. intros H. exists b. split; auto.
  unfold cp_len, Consts.CP_LEN_T1, Consts.CP_LEN_T2, Consts.CP_LEN_T3.
  destruct (b <? 128); [inversion H; auto|]. destruct (b <? 224); [inversion H; auto|].
  destruct (b <? 240); inversion H; auto.
Qed.

Lemma cps_of_char v : wf_char v -> exists cp, cps_of (length v) v 0 = [cp].
Proof.
  intros Wv. destruct v as [|b r]; [destruct Wv|]. destruct Wv as (_ & _ & Hl).
  cbn [length cps_of]. destruct (decode_at (b :: r) 0) as [[cp len]|] eqn:E.
  - destruct (decode_len _ _ _ _ E) as (b' & Eb & ->). simpl in Eb. inversion Eb; subst b'.
    exists cp. f_equal. simpl in Hl. rewrite <- Hl. cbn [plus].
    destruct (length r) as [|k] eqn:Ek; [reflexivity|]. cbn [cps_of].
    unfold decode_at. replace (nth_error (b :: r) (S (S k))) with (@None nat); auto.
    symmetry. apply nth_error_None. simpl. lia.
  - unfold decode_at in E. simpl in E. destruct (b <? 128); [discriminate|].
    destruct (b <? 224); [discriminate|]. destruct (b <? 240); discriminate.
Qed.

(* boundaries reached by walking back *)
Lemma backs_ok : forall fuel ix, bnd cs ix -> Forall (bnd cs) (backs cx fuel ix).
Proof.
  induction fuel as [|f IH]; intros ix B; cbn [backs]; constructor; auto.
  destruct ix as [|ix']; [constructor|]. rewrite text_eq.
  destruct (step_back cs (S ix') W B ltac:(lia)) as (j & b & Hp & Bj & _). fold t in Hp.
  rewrite Hp. apply IH; auto.
Qed.

(* ---------- repetition ---------- *)
Section Rep.
Variable body : sst -> list sst.
Variable mc : N.            (* min_size of the body *)
Variable cc : Prop.         (* the body is judged constant-size (and zok) *)
Hypothesis Hbody : forall s s', st_ok s -> In s' (body s) ->
  exists n, adv s s' n /\ (mc <= N.of_nat n)%N /\ (cc -> N.of_nat n = mc).

Lemma rep_must_sound : forall k s s', st_ok s -> In s' (rep_must body k s) ->
  exists n, adv s s' n /\ (N.of_nat k * mc <= N.of_nat n)%N /\ (cc -> N.of_nat n = (N.of_nat k * mc)%N).
Proof.
  induction k as [|k IH]; intros s s' Hs Hin; cbn [rep_must] in Hin.
  - destruct Hin as [<-|[]]. exists 0. split; [apply adv_refl; auto|]. split; [lia|intros; lia].
  - apply in_flat_map in Hin. destruct Hin as (s1 & H1 & H2).
    destruct (Hbody _ _ Hs H1) as (n1 & A1 & M1 & C1).
    destruct (IH _ _ (proj1 A1) H2) as (n2 & A2 & M2 & C2).
    exists (n1 + n2). split; [eapply adv_trans; eauto|]. split; [lia|].
    intros Hc. specialize (C1 Hc). specialize (C2 Hc). lia.
Qed.

Lemma rep_opt_b_sound greedy : forall m s s', st_ok s -> In s' (rep_opt_b body greedy m s) ->
  exists n, adv s s' n /\ (m = 0 -> n = 0).
Proof.
  induction m as [|m IH]; intros s s' Hs Hin; cbn [rep_opt_b] in Hin.
  - destruct Hin as [<-|[]]. exists 0. split; [apply adv_refl; auto|auto].
  - assert (Hcase : s' = s \/ In s' (flat_map (rep_opt_b body greedy m) (body s))).
    { destruct greedy; [apply in_app_or in Hin; destruct Hin as [H|[H|[]]]; auto|destruct Hin; auto]. }
    destruct Hcase as [->|Hin'].
    + exists 0. split; [apply adv_refl; auto|auto].
    + apply in_flat_map in Hin'. destruct Hin' as (s1 & H1 & H2).
      destruct (Hbody _ _ Hs H1) as (n1 & A1 & _).
      destruct (IH _ _ (proj1 A1) H2) as (n2 & A2 & _).
      exists (n1 + n2). split; [eapply adv_trans; eauto|discriminate].
Qed.

Lemma rep_opt_u_sound greedy : forall fuel s s', st_ok s -> In s' (rep_opt_u body greedy fuel s) ->
  exists n, adv s s' n /\ (cc -> mc = 0%N -> n = 0).
Proof.
  induction fuel as [|f IH]; intros s s' Hs Hin; cbn [rep_opt_u] in Hin; [destruct Hin|].
  set (more := flat_map (fun s1 => if fst s1 =? fst s then [] else rep_opt_u body greedy f s1) (body s)) in *.
  assert (Hcase : s' = s \/ In s' more).
  { destruct greedy; [apply in_app_or in Hin; destruct Hin as [H|[H|[]]]; auto|destruct Hin; auto]. }
  destruct Hcase as [->|Hin'].
  - exists 0. split; [apply adv_refl; auto|auto].
  - unfold more in Hin'. apply in_flat_map in Hin'. destruct Hin' as (s1 & H1 & H2).
    destruct (Hbody _ _ Hs H1) as (n1 & A1 & _ & C1).
    destruct (Nat.eqb_spec (fst s1) (fst s)) as [Heq|Hne]; [destruct H2|].
    destruct (IH _ _ (proj1 A1) H2) as (n2 & A2 & _).
    exists (n1 + n2). split; [eapply adv_trans; eauto|].
    intros Hc Hz. exfalso. specialize (C1 Hc). rewrite Hz in C1.
    assert (n1 = 0) by lia. subst. apply adv_zero_eq in A1. congruence.
Qed.
End Rep.

(* ---------- the main induction ---------- *)

Lemma good_intro e st st' n : adv st st' n -> (min_size e <= N.of_nat n)%N ->
  (zok e -> const_size e = true -> N.of_nat n = min_size e) -> good e st st'.
Proof. intros. exists n. auto. Qed.

Definition SG (e : expr) : Prop :=
  wfe e -> forall fuel g st st', st_ok st -> In st' (sem cx e fuel g st) -> good e st st'.

Definition alts_of (e : expr) : list expr := match e with Alt es => es | _ => [e] end.

Lemma wfe_alts e : wfe e -> wfe_list (alts_of e).
Proof. destruct e; cbn [alts_of wfe_list]; auto. Qed.

(* what a look-behind finds comes from one of the alternatives of its body *)
Lemma lookbehind_found e fuel g0 ix caps s' :
  let try_alt := fun (a : expr) (ga : nat) =>
        first_some (fun j => first_ending (sem cx a fuel ga (j, caps)) ix) (backs cx ix ix) in
  match e with
  | Alt es =>
      (fix go (g : nat) (l : list expr) : option sst :=
         match l with
         | [] => None
         | x :: r => match try_alt x g with Some s => Some s | None => go (g + ngroups x) r end
         end) g0 es
  | _ => try_alt e g0
  end = Some s' ->
  exists a ga j, In a (alts_of e) /\ In j (backs cx ix ix) /\ In s' (sem cx a fuel ga (j, caps)).
Proof.
  intros try_alt.
  assert (Ht : forall a ga, try_alt a ga = Some s' ->
                exists j, In j (backs cx ix ix) /\ In s' (sem cx a fuel ga (j, caps))).
  { intros a ga. unfold try_alt. induction (backs cx ix ix) as [|j l IH]; cbn [first_some]; [discriminate|].
    destruct (first_ending (sem cx a fuel ga (j, caps)) ix) as [s2|] eqn:E.
    - intros H; inversion H; subst. unfold first_ending in E. apply find_some in E.
      exists j. split; [left; auto|apply E].
    - intros H. destruct (IH H) as (j' & Hj & Hs'). exists j'. split; [right; auto|auto]. }
  destruct e; try (intros H; destruct (Ht _ _ H) as (j & Hj & Hs'); eexists _, _, j; split; [left; reflexivity|split; eauto]).
  cbn [alts_of]. revert g0. induction es as [|x r IH]; intros g0 H; [discriminate|].
  destruct (try_alt x g0) eqn:E.
  - inversion H; subst. destruct (Ht _ _ E) as (j & Hj & Hs'). exists x, g0, j. split; [left; auto|split; auto].
  - destruct (IH _ H) as (a & ga & j & Ha & Hj & Hs'). exists a, ga, j. split; [right; auto|split; auto].
Qed.

Lemma try_alt_found a ga fuel ix caps s' :
  first_some (fun j => first_ending (sem cx a fuel ga (j, caps)) ix) (backs cx ix ix) = Some s' ->
  exists j, In j (backs cx ix ix) /\ In s' (sem cx a fuel ga (j, caps)).
Proof.
  induction (backs cx ix ix) as [|j l IH]; cbn [first_some]; [discriminate|].
  destruct (first_ending (sem cx a fuel ga (j, caps)) ix) as [s2|] eqn:E.
  - intros H; inversion H; subst. unfold first_ending in E. apply find_some in E.
    exists j. split; [left; auto|apply E].
  - intros H. destruct (IH H) as (j' & Hj & Hs'). exists j'. split; [right; auto|auto].
Qed.

Lemma split_in fuel ix caps : forall es g st',
  In st' ((fix go (g : nat) (l : list expr) : list sst :=
             match l with
             | [] => []
             | x :: r =>
                 match first_some (fun j => first_ending (sem cx x fuel g (j, caps)) ix) (backs cx ix ix) with
                 | Some s => [(ix, snd s)]
                 | None => []
                 end ++ go (g + ngroups x) r
             end) g es) ->
  exists x gx s, In x es /\
    first_some (fun j => first_ending (sem cx x fuel gx (j, caps)) ix) (backs cx ix ix) = Some s /\
    st' = (ix, snd s).
Proof.
  induction es as [|x r IH]; intros g st' H; [destruct H|]. apply in_app_or in H. destruct H as [H|H].
  - destruct (first_some _ _) as [s|] eqn:E; [|destruct H]. destruct H as [<-|[]].
    exists x, g, s. split; [left; auto|split; auto].
  - destruct (IH _ _ H) as (y & gy & s & Hy & Hf & ->). exists y, gy, s. split; [right; auto|split; auto].
Qed.

Lemma sem_sound_aux : forall e, SG e /\ Forall SG (alts_of e).
Proof.
  induction e using expr_ind'.
  all: try match goal with |- SG ?e /\ Forall SG (alts_of ?e) =>
         lazymatch e with Alt _ => fail | _ =>
           assert (H1 : SG e); [|split; [exact H1|constructor; [exact H1|constructor]]] end end.
  - (* Empty *) intros Hw fuel g0 st st' Hs Hin. destruct st as [ix caps]. cbn [sem] in Hin. destruct Hin as [<-|[]].
    apply (good_intro _ _ _ 0); [apply adv_refl; auto|simpl; lia|auto].
  - (* Any *) intros Hw fuel g0 st st' Hs Hin. destruct st as [ix caps]. cbn [sem] in Hin. rewrite text_eq in Hin.
    destruct (nth_error t ix) as [b|] eqn:E; [|destruct Hin].
    destruct (nl || negb (b =? 10)); [|destruct Hin]. destruct Hin as [<-|[]].
    apply (good_intro _ _ _ 1); [apply step1; auto|simpl; lia|auto].
  - (* Assertion *) intros Hw fuel g0 st st' Hs Hin. destruct st as [ix caps]. cbn [sem] in Hin.
    destruct (assert_holds cx a ix); [|destruct Hin]. destruct Hin as [<-|[]].
    apply (good_intro _ _ _ 0); [apply adv_refl; auto|simpl; lia|auto].
  - (* Literal *) intros Hw fuel g0 st st' Hs Hin. destruct st as [ix caps]. cbn [sem wfe] in *. destruct c.
    + destruct (cps_of_char v Hw) as (cp & Hcp). rewrite Hcp in Hin. cbn [lit_ci] in Hin.
      rewrite text_eq in Hin.
      destruct (decode_at t ix) as [[cp' len]|] eqn:E; [|destruct Hin].
      destruct (fold_cp cp' =? fold_cp cp); [|destruct Hin].
      destruct (ix + len <=? length t); [|destruct Hin]. destruct Hin as [<-|[]].
      destruct (decode_len _ _ _ _ E) as (b & Eb & ->).
      apply (good_intro _ _ _ 1); [apply step1; auto|simpl; lia|auto].
    + rewrite text_eq in Hin. destruct (lit_at t ix v) eqn:El; [|destruct Hin]. destruct Hin as [<-|[]].
      destruct v as [|b r]; [destruct Hw|]. apply lit_at_spec in El. destruct El as (_ & Hk).
      pose proof (Hk 0 ltac:(simpl; lia)) as H0. rewrite Nat.add_0_r in H0. simpl in H0.
      destruct Hw as (_ & _ & Hl). rewrite Hl.
      apply (good_intro _ _ _ 1); [apply step1; auto|simpl; lia|auto].
  - (* Concat *) intros Hw fuel g0 st st' Hs Hin.
    rewrite sem_concat_eq in Hin. rewrite wfe_concat in Hw.
    assert (Hgen : forall l g s s', Forall (fun x => SG x /\ Forall SG (alts_of x)) l ->
                   wfe_list l -> st_ok s -> In s' (sem_cat cx fuel g l s) ->
                   exists n, adv s s' n /\ (sum_min l <= N.of_nat n)%N /\
                             (zok_list l -> const_cat l = true -> N.of_nat n = sum_min l)).
    { induction l as [|x r IHr]; intros g s s' HF Hwl Hs' Hin'; cbn [sem_cat] in Hin'.
      - destruct Hin' as [<-|[]]. exists 0. split; [apply adv_refl; auto|]. simpl. split; [lia|auto].
      - inversion HF as [|? ? [Hx _] Hr]; subst. destruct Hwl as [Hwx Hwr].
        apply in_flat_map in Hin'. destruct Hin' as (s1 & H1 & H2).
        destruct (Hx Hwx _ _ _ _ Hs' H1) as (n1 & A1 & M1 & C1).
        destruct (IHr _ _ _ Hr Hwr (proj1 A1) H2) as (n2 & A2 & M2 & C2).
        exists (n1 + n2). split; [eapply adv_trans; eauto|]. cbn [sum_min zok_list const_cat].
        split; [lia|]. intros [Z1 Z2] Hc. apply andb_true_iff in Hc. destruct Hc as [Hc1 Hc2].
        specialize (C1 Z1 Hc1). specialize (C2 Z2 Hc2). lia. }
    destruct (Hgen es g0 st st' H Hw Hs Hin) as (n & A & M & C).
    apply (good_intro _ _ _ n); auto.
    + rewrite min_concat. etransitivity; [apply min_cat_le|]. lia.
    + rewrite zok_concat, const_concat, min_concat. intros Z Hc. specialize (C Z Hc).
      rewrite min_cat_exact; [lia|]. pose proof (adv_bound _ _ _ A). lia.
  - (* Alt *)
    assert (Hall : Forall SG es) by (eapply Forall_impl; [|exact H]; intros a [Ha _]; exact Ha).
    split; [|exact Hall].
    intros Hw fuel g0 st st' Hs Hin.
    rewrite sem_alt_eq in Hin. rewrite wfe_alt in Hw.
    assert (Hgen : forall l g, Forall SG l -> wfe_list l -> In st' (sem_alts cx fuel g l st) ->
                   exists x, In x l /\ good x st st').
    { induction l as [|x r IHr]; intros g HF Hwl Hin'; cbn [sem_alts] in Hin'; [destruct Hin'|].
      inversion HF as [|? ? Hx Hr]; subst. destruct Hwl as [Hwx Hwr].
      apply in_app_or in Hin'. destruct Hin' as [H1|H2].
      - exists x. split; [left; auto|]. eapply Hx; eauto.
      - destruct (IHr _ Hr Hwr H2) as (y & Hy & Gy). exists y. split; [right; auto|auto]. }
    destruct (Hgen es g0 Hall Hw Hin) as (x & Hx & n & A & M & C).
    destruct es as [|x0 r]; [destruct Hx|].
    apply (good_intro _ _ _ n); auto.
    + rewrite min_alt_eq. etransitivity; [|exact M]. destruct Hx as [<-|Hx].
      * apply min_alts_le_acc.
      * apply min_alts_le_in; auto.
    + rewrite zok_alt, const_alt_eq, min_alt_eq. intros Z Hc.
      destruct (const_alts_true _ _ _ Hc) as (Hc0 & Hm & Hall'). rewrite Hm.
      assert (Zx : zok x).
      { clear - Z Hx. revert Z. generalize (x0 :: r) Hx. induction l as [|y l IH]; intros [] Z.
        - subst. apply Z.
        - apply IH; auto. apply Z. }
      destruct Hx as [<-|Hx]; [apply C; auto|].
      destruct (Hall' _ Hx) as (Hcx & Hmx). rewrite <- Hmx. apply C; auto.
  - (* Group *) destruct IHe as [IHe _]. intros Hw fuel g0 st st' Hs Hin.
    destruct st as [ix caps]. cbn [sem wfe] in *. apply in_map_iff in Hin.
    destruct Hin as (s1 & <- & H1').
    assert (Hs1 : st_ok (ix, upd caps (2 * g0) (V ix))).
    { destruct Hs as [Hb Hc]. split; auto. cbn [snd]. apply val_ok_upd; auto. }
    destruct (IHe Hw _ _ _ _ Hs1 H1') as (n & [[Hb' Hc'] D] & M & C).
    apply (good_intro _ _ _ n); auto. split; [split|]; cbn [fst snd] in *; auto.
    apply val_ok_upd; auto.
  - (* LookAround *) destruct IHe as [IHe IHalts]. intros Hw fuel g0 st st' Hs Hin.
    destruct st as [ix caps]. cbn [wfe] in Hw.
    assert (Hzero : forall caps', Forall val_ok caps' -> good (LookAround e la) (ix, caps) (ix, caps')).
    { intros caps' Hc'. apply (good_intro _ _ _ 0); [|simpl; lia|auto].
      split; [split; auto; apply Hs|]. constructor. apply Hs. }
    assert (Hbehind : forall s', match e with
                 | Alt es =>
                     (fix go (g : nat) (l : list expr) : option sst :=
                        match l with
                        | [] => None
                        | x :: r => match first_some (fun j => first_ending (sem cx x fuel g (j, caps)) ix) (backs cx ix ix)
                                    with Some s => Some s | None => go (g + ngroups x) r end
                        end) g0 es
                 | _ => first_some (fun j => first_ending (sem cx e fuel g0 (j, caps)) ix) (backs cx ix ix)
                 end = Some s' -> Forall val_ok (snd s')).
    { intros s' Hf. destruct (lookbehind_found e fuel g0 ix caps s' Hf) as (a & ga & j & Ha & Hj & Hs').
      pose proof (backs_ok ix ix (proj1 Hs)) as Hb. rewrite Forall_forall in Hb.
      assert (Hjs : st_ok (j, caps)) by (split; [apply Hb; auto|apply Hs]).
      rewrite Forall_forall in IHalts. pose proof (wfe_alts e Hw) as Hwa.
      assert (Hwa' : wfe a).
      { clear - Hwa Ha. induction (alts_of e) as [|y l IH]; [destruct Ha|]. destruct Hwa as [H1 H2].
        destruct Ha as [<-|Ha]; auto. }
      destruct (IHalts a Ha Hwa' _ _ _ _ Hjs Hs') as (n & [[_ Hc'] _] & _). exact Hc'. }
    destruct la.
    + cbn [sem] in Hin. apply in_map_iff in Hin. destruct Hin as (s1 & <- & H1').
      assert (H1'' : In s1 (sem cx e fuel g0 (ix, caps))).
      { destruct (sem cx e fuel g0 (ix, caps)); [destruct H1'|]. destruct H1' as [<-|[]]. left; auto. }
      destruct (IHe Hw _ _ _ _ Hs H1'') as (n & [[_ Hc'] _] & _). apply Hzero; auto.
    + cbn [sem] in Hin. destruct (sem cx e fuel g0 (ix, caps)); [|destruct Hin].
      destruct Hin as [<-|[]]. apply Hzero. apply Hs.
    + cbn [sem] in Hin.
      match type of Hin with In _ (match ?f with _ => _ end) => destruct f as [s2|] eqn:Ef end;
        [|destruct Hin].
      destruct (is_alt e && negb (const_size e)) eqn:Esp.
      * destruct e; try discriminate.
        apply split_in in Hin. destruct Hin as (x & gx & s & Hx & Hf & ->). apply Hzero.
        destruct (try_alt_found _ _ _ _ _ _ Hf) as (j & Hj & Hs').
        pose proof (backs_ok ix ix (proj1 Hs)) as Hb. rewrite Forall_forall in Hb.
        assert (Hjs : st_ok (j, caps)) by (split; [apply Hb; auto|apply Hs]).
        rewrite Forall_forall in IHalts. cbn [alts_of] in IHalts.
        assert (Hwx : wfe x).
        { rewrite wfe_alt in Hw. clear - Hw Hx. induction es as [|y l IH]; [destruct Hx|]. destruct Hw as [H1 H2].
          destruct Hx as [<-|Hx]; auto. }
        destruct (IHalts x Hx Hwx _ _ _ _ Hjs Hs') as (n & [[_ Hc'] _] & _). exact Hc'.
      * destruct Hin as [<-|[]]. apply Hzero. apply (Hbehind s2). reflexivity.
    + cbn [sem] in Hin.
      match type of Hin with In _ (match ?f with _ => _ end) => destruct f as [s2|] eqn:Ef end;
        [destruct Hin|]. destruct Hin as [<-|[]]. apply Hzero. apply Hs.
  - (* Repeat *) destruct IHe as [IHe _]. intros Hw fuel g0 st st' Hs Hin.
    destruct st as [ix caps]. cbn [sem wfe] in *.
    set (body := sem cx e fuel g0) in *.
    assert (Hbody : forall s s', st_ok s -> In s' (body s) ->
              exists n, adv s s' n /\ (min_size e <= N.of_nat n)%N /\
                        ((zok e /\ const_size e = true) -> N.of_nat n = min_size e)).
    { intros s s' Hss Hi. destruct (IHe Hw _ _ _ _ Hss Hi) as (n & A & M & C).
      exists n. split; auto. split; auto. intros [Z Hc]. auto. }
    apply in_flat_map in Hin. destruct Hin as (s1 & H1' & H2).
    destruct (rep_must_sound body _ _ Hbody _ _ _ Hs H1') as (n1 & A1 & M1 & C1).
    assert (Hopt : exists n2, adv s1 st' n2 /\
               ((zok e /\ const_size e = true) -> N.eqb lo hi = true -> n2 = 0 \/ (min_size e <> 0%N /\ hi = usize_max))).
    { destruct (N.eqb_spec hi usize_max) as [Eh|Nh].
      - destruct (rep_opt_u_sound body _ _ Hbody gr _ _ _ (proj1 A1) H2) as (n2 & A2 & C2).
        exists n2. split; auto. intros Hc _. destruct (N.eq_dec (min_size e) 0) as [Ez|Nz]; auto.
      - destruct (rep_opt_b_sound body _ _ Hbody gr _ _ _ (proj1 A1) H2) as (n2 & A2 & C2).
        exists n2. split; auto. intros _ Heq. apply N.eqb_eq in Heq. subst. left. apply C2. lia. }
    destruct Hopt as (n2 & A2 & C2).
    pose proof (adv_trans _ _ _ _ _ A1 A2) as A.
    apply (good_intro _ _ _ (n1 + n2)); auto.
    + cbn [min_size]. etransitivity; [apply sat_mul_le|]. rewrite N2Nat.id in M1. lia.
    + cbn [zok const_size min_size]. intros Z Hc. apply andb_true_iff in Hc. destruct Hc as [Hc Heq].
      specialize (C1 (conj Z Hc)). rewrite N2Nat.id in C1.
      pose proof (adv_bound _ _ _ A) as Hb.
      destruct (C2 (conj Z Hc) Heq) as [->|[Nz Eh]].
      * rewrite Nat.add_0_r in *. rewrite sat_mul_exact; [lia|]. lia.
      * exfalso. apply N.eqb_eq in Heq. subst lo hi.
        assert (usize_max * min_size e >= usize_max)%N by (unfold usize_max in *; lia). lia.
  - (* Delegate *) intros Hw fuel g0 st st' Hs Hin. destruct st as [ix caps]. cbn [sem wfe] in *. destruct k.
    + rewrite text_eq in Hin. destruct (decode_at t ix) as [[cp len]|] eqn:E; [|destruct Hin].
      destruct (existsb (Nat.eqb cp) cps); [|destruct Hin]. destruct Hin as [<-|[]].
      destruct (decode_len _ _ _ _ E) as (b & Eb & ->). subst s.
      apply (good_intro _ _ _ 1); [apply step1; auto|simpl; lia|auto].
    + rewrite text_eq in Hin.
      destruct ((ix <=? length t) && only_newlines_from cx ix) eqn:E; [|destruct Hin].
      destruct Hin as [<-|[]]. apply andb_true_iff in E. destruct E as [E _]. apply Nat.leb_le in E.
      pose proof (bnd_end cs) as Be. fold t in Be.
      destruct (bnd_dist cs W (length t - ix) ix (length t) (le_n _) (proj1 Hs) Be E) as (n & D).
      subst s. apply (good_intro _ _ _ n); [split; [split; [exact Be|apply Hs]|exact D]|simpl; lia|].
      cbn [zok]. intros [].
  - (* Backref *) intros Hw fuel g0 st st' Hs Hin. destruct st as [ix caps]. cbn [sem] in Hin.
    pose proof (val_ok_getcap caps (2 * N.to_nat g) (proj2 Hs)) as Hlo.
    pose proof (val_ok_getcap caps (2 * N.to_nat g + 1) (proj2 Hs)) as Hhi.
    destruct (getcap caps (2 * N.to_nat g)) as [lo|]; [|destruct Hin].
    destruct (getcap caps (2 * N.to_nat g + 1)) as [hi|]; [|destruct Hin].
    rewrite text_eq in Hin.
    destruct ((lo <=? hi) && lit_at t ix (slice t lo hi)) eqn:E; [|destruct Hin].
    destruct Hin as [<-|[]]. apply andb_true_iff in E. destruct E as [E1 E2]. apply Nat.leb_le in E1.
    cbn [val_ok] in Hlo, Hhi.
    destruct (bnd_dist cs W (hi - lo) lo hi (le_n _) Hlo Hhi E1) as (n & D).
    pose proof (copy_dist cs W lo hi n D ix (proj1 Hs) E2) as D'.
    destruct (dist_bnd cs W _ _ _ D') as (_ & Bn & _).
    apply (good_intro _ _ _ n); [split; [split; [exact Bn|apply Hs]|exact D']|simpl; lia|].
    cbn [const_size]. discriminate.
  - (* AtomicGroup *) destruct IHe as [IHe _]. intros Hw fuel g0 st st' Hs Hin.
    destruct st as [ix caps]. cbn [sem wfe] in *.
    assert (Hin' : In st' (sem cx e fuel g0 (ix, caps))).
    { destruct (sem cx e fuel g0 (ix, caps)); [destruct Hin|]. destruct Hin as [<-|[]]. left; auto. }
    destruct (IHe Hw _ _ _ _ Hs Hin') as (n & A & M & C). apply (good_intro _ _ _ n); auto.
  - (* KeepOut *) intros Hw fuel g0 st st' Hs Hin. destruct st as [ix caps]. cbn [sem] in Hin.
    destruct Hin as [<-|[]]. apply (good_intro _ _ _ 0); [|simpl; lia|auto].
    split; [split; [apply Hs|]|constructor; apply Hs]. cbn [snd]. apply val_ok_upd; [apply Hs|apply Hs].
  - (* ContinueFromPreviousMatchEnd *) intros Hw fuel g0 st st' Hs Hin. destruct st as [ix caps]. cbn [sem] in Hin.
    destruct ((ix =? c_pos cx) && negb (c_skipped cx)); [|destruct Hin]. destruct Hin as [<-|[]].
    apply (good_intro _ _ _ 0); [apply adv_refl; auto|simpl; lia|auto].
  - (* BackrefExistsCondition *) intros Hw fuel g0 st st' Hs Hin. destruct st as [ix caps]. cbn [sem] in Hin.
    destruct (getcap caps (2 * N.to_nat g)); [|destruct Hin]. destruct Hin as [<-|[]].
    apply (good_intro _ _ _ 0); [apply adv_refl; auto|simpl; lia|auto].
  - (* Conditional *) destruct IHe1 as [IH1 _]. destruct IHe2 as [IH2 _]. destruct IHe3 as [IH3 _].
    intros Hw fuel g0 st st' Hs Hin. destruct st as [ix caps]. cbn [sem wfe] in *.
    destruct Hw as (Hw1 & Hw2 & Hw3).
    destruct (sem cx e1 fuel g0 (ix, caps)) as [|s1 rest] eqn:E1.
    + destruct (IH3 Hw3 _ _ _ _ Hs Hin) as (n & A & M & C).
      apply (good_intro _ _ _ n); auto.
      * cbn [min_size]. etransitivity; [apply N.le_min_r|exact M].
      * cbn [zok const_size min_size]. intros (Z1 & Z2 & Z3) Hc.
        apply andb_true_iff in Hc. destruct Hc as [Hc Heq]. apply andb_true_iff in Hc. destruct Hc as [Hc Hc3].
        specialize (C Z3 Hc3). apply N.eqb_eq in Heq. rewrite Heq, N.min_id. exact C.
    + assert (H1' : In s1 (sem cx e1 fuel g0 (ix, caps))) by (rewrite E1; left; auto).
      destruct (IH1 Hw1 _ _ _ _ Hs H1') as (n1 & A1 & M1 & C1).
      destruct (IH2 Hw2 _ _ _ _ (proj1 A1) Hin) as (n2 & A2 & M2 & C2).
      pose proof (adv_trans _ _ _ _ _ A1 A2) as A. pose proof (adv_bound _ _ _ A) as Hb.
      apply (good_intro _ _ _ (n1 + n2)); auto.
      * cbn [min_size]. etransitivity; [apply N.le_min_l|]. etransitivity; [apply sat_add_le|]. lia.
      * cbn [zok const_size min_size]. intros (Z1 & Z2 & Z3) Hc.
        apply andb_true_iff in Hc. destruct Hc as [Hc Heq]. apply andb_true_iff in Hc. destruct Hc as [Hc Hc3].
        apply andb_true_iff in Hc. destruct Hc as [Hc1 Hc2].
        specialize (C1 Z1 Hc1). specialize (C2 Z2 Hc2). apply N.eqb_eq in Heq. rewrite <- Heq, N.min_id.
        rewrite sat_add_exact; lia.
  - (* SubroutineCall *) intros Hw fuel g0 st st' Hs Hin. destruct st as [ix caps]. cbn [sem] in Hin. destruct Hin.
Qed.

Theorem sem_sound : forall e, wfe e -> forall fuel g st st',
  st_ok st -> In st' (sem cx e fuel g st) -> good e st st'.
Proof. intros e. apply (proj1 (sem_sound_aux e)). Qed.

End Sound.
