(* ParseInv.v — what the parser (Model/Parse.v, the port of parse.rs) guarantees about the tree it
   returns, for EVERY pattern string:
     - every group a Backref / BackrefExistsCondition node reads has been recorded in the
       parser's back-reference set (the bit set handed to the analysis): [refs_ok];
     - the \Z helper node (?=\n*$) only occurs as the body of its look-ahead: [zok].
   These are two of the hypotheses of the end-to-end theorem (EndToEnd.v); with this file they
   follow from "the pattern parses". *)
From FR Require Import Base Utf8 Ast Analyze Sem ExprLemmas SemSound Param Parse.
From Coq Require Import Lia NArith.

(* look-behind bodies do not contain the \Z helper at their top *)
Fixpoint lbz (e : expr) : Prop :=
  match e with
  | LookAround c la => lbz c /\ (match la with LookBehind | LookBehindNeg => zok c | _ => True end)
  | Concat es | Alt es => (fix go (l : list expr) : Prop := match l with [] => True | x :: r => lbz x /\ go r end) es
  | Group c | Repeat c _ _ _ | AtomicGroup c => lbz c
  | Conditional c y n => lbz c /\ lbz y /\ lbz n
  | _ => True
  end.
Fixpoint lbz_list (l : list expr) : Prop := match l with [] => True | x :: r => lbz x /\ lbz_list r end.
Lemma lbz_concat es : lbz (Concat es) = lbz_list es. Proof. induction es; simpl in *; congruence. Qed.
Lemma lbz_alt es : lbz (Alt es) = lbz_list es. Proof. induction es; simpl in *; congruence. Qed.

Definition Z (e : expr) : Prop := zok e /\ lbz e.
Definition G (B : list N) (e : expr) : Prop := refs_ok True (fun g => In g B) e /\ Z e.
Definition ext (s s' : pst) : Prop := incl (p_backrefs s) (p_backrefs s').

Lemma ext_refl s : ext s s. Proof. apply incl_refl. Qed.
Lemma ext_trans a b c : ext a b -> ext b c -> ext a c. Proof. apply incl_tran. Qed.


(* ====== the induction over the seven mutually recursive parser functions, for ANY invariant ====== *)
Section Gen.
Variable re : list nat.
Variable Q : pst -> expr -> Prop.
Hypothesis G_mono : forall s s' e, ext s s' -> Q s e -> Q s' e.
Hypothesis Q_empty : forall s, Q s Empty.
Hypothesis Q_any : forall s b, Q s (Any b).
Hypothesis Q_assert : forall s a, Q s (Assertion a).
Hypothesis Q_lit : forall s ix b ci, byte re ix = Some b -> (length re <? ix + cp_len b) = false ->
  Q s (Literal (sub re ix (ix + cp_len b)) ci).
Hypothesis G_concat : forall s l, Forall (Q s) l -> Q s (Concat l).
Hypothesis G_alt : forall s l, 2 <= length l -> Forall (Q s) l -> Q s (Alt l).
Hypothesis G_alt1 : forall s l, length l < 2 -> Q s (Alt l) -> Q s (Alt []).
Hypothesis G_alt_inv : forall s l, Q s (Alt l) -> Forall (Q s) l.
Hypothesis G_repeat : forall s c lo hi gr, Q s c -> Q s (Repeat c lo hi gr).
Hypothesis G_atomic : forall s c, Q s c -> Q s (AtomicGroup c).
Hypothesis G_group : forall s c, Q s c -> Q s (Group c).
Hypothesis G_la : forall s c la, Q s c -> Q s (LookAround c la).
Hypothesis G_bec : forall s g, Q s (Backref g) -> Q s (BackrefExistsCondition g).
Hypothesis G_cond : forall s c y n, Q s c -> Q s y -> Q s n -> Q s (Conditional c y n).
Hypothesis named_backref_G : forall st ix o c ar mk r,
  (forall g, mk g = Backref g) \/ (forall g, mk g = SubroutineCall g) ->
  parse_named_backref re st ix o c ar mk = POk r -> ext st (snd r) /\ Q (snd r) (snd (fst r)).
Hypothesis numbered_backref_G : forall st ix mk r,
  (forall g, mk g = Backref g) \/ (forall g, mk g = SubroutineCall g) ->
  parse_numbered_backref re st ix mk = POk r -> ext st (snd r) /\ Q (snd r) (snd (fst r)).
Hypothesis parse_escape_G : forall st ix ic r, parse_escape re st ix ic = POk r ->
  ext st (snd r) /\ Q (snd r) (snd (fst r)).
Hypothesis parse_class_G : forall st ix r, parse_class re st ix = POk r ->
  ext st (snd r) /\ Q (snd r) (snd (fst r)).

Ltac inv H := inversion H; subst; clear H.

Lemma Forall_G_mono s s' l : ext s s' -> Forall (Q s) l -> Forall (Q s') l.
Proof. intros He H. eapply Forall_impl; [|exact H]. intros a. now apply G_mono. Qed.

Definition OK3 (st : pst) (r : P3) : Prop := ext st (snd r) /\ Q (snd r) (snd (fst r)).

Lemma OK3_trans st st1 r : ext st st1 -> OK3 st1 r -> OK3 st r.
Proof. intros H [H1 H2]. split; auto. eapply ext_trans; eauto. Qed.


Definition S_re f := forall st ix d r, parse_re re f st ix d = POk r -> OK3 st r.
Definition S_alt f := forall st ix d ch r, alt_loop re f st ix d ch = POk r -> Forall (Q st) ch ->
  1 <= length ch -> (byte_is re ix 124 = true \/ 2 <= length ch) -> OK3 st r.
Definition S_branch f := forall st ix d ch r, parse_branch re f st ix d ch = POk r -> Forall (Q st) ch -> OK3 st r.
Definition S_piece f := forall st ix d r, parse_piece re f st ix d = POk r -> OK3 st r.
Definition S_atom f := forall st ix d r, parse_atom re f st ix d = POk r -> OK3 st r.
Definition S_group f := forall st ix d r, parse_group re f st ix d = POk r -> OK3 st r.
Definition S_flags f := forall st ixq d start ix neg old r, parse_flags re f st ixq d start ix neg old = POk r -> OK3 st r.
Definition S_cond f := forall st ix d r, parse_conditional re f st ix d = POk r -> OK3 st r.

Lemma parse_group_S f st ix depth : parse_group re (S f) st ix depth =

      let depth := depth + 1 in
      if Consts.MAX_RECURSION <=? depth then PErr ix PRecursionExceeded else
      let fl := p_flags st in
      let! ix1 := optional_whitespace re ((length re) + 2) fl (ix + 1) in
      let s := from re ix1 in
      let body (la : option lookkind) (skip : nat) (st : pst) : pres P3 :=
        let! r := parse_re re f st (ix1 + skip) depth in
        let '(ix2, child, st1) := r in
        let! ix3 := check_for_close_paren re (p_flags st1) ix2 in
        POk (ix3, match la with
                  | Some k => LookAround child k
                  | None => if skip =? 2 then AtomicGroup child else Group child
                  end, st1) in
      if starts_with s [63; 61] then body (Some LookAhead) 2 st
      else if starts_with s [63; 33] then body (Some LookAheadNeg) 2 st
      else if starts_with s [63; 60; 61] then body (Some LookBehind) 3 st
      else if starts_with s [63; 60; 33] then body (Some LookBehindNeg) 3 st
      else if starts_with s [63; 60] then
        let st1 := bump_group st in
        match parse_id (from re (ix1 + 1)) [60] [62] false with
        | Some (id, skip) => body None (skip + 1) (add_name st1 id)
        | None => PErr ix1 PInvalidGroupName
        end
      else if starts_with s [63; 80; 60] then
        let st1 := bump_group st in
        match parse_id (from re (ix1 + 2)) [60] [62] false with
        | Some (id, skip) => body None (skip + 2) (add_name st1 id)
        | None => PErr ix1 PInvalidGroupName
        end
      else if starts_with s [63; 80; 61] then parse_named_backref re st (ix1 + 3) [] [41] false Backref
      else if starts_with s [63; 62] then body None 2 st
      else if starts_with s [63; 40] then parse_conditional re f st (ix1 + 2) depth
      else if starts_with s [63; 80; 62] then parse_named_backref re st (ix1 + 3) [] [41] false SubroutineCall
      else if starts_with s [63] then parse_flags re f st ix1 depth (ix1 + 1) (ix1 + 1) false (p_flags st)
      else body None 0 (bump_group st).
Proof. reflexivity. Qed.

Section Step.
Variable f : nat.
Hypothesis I_re : S_re f.
Hypothesis I_alt : S_alt f.
Hypothesis I_branch : S_branch f.
Hypothesis I_piece : S_piece f.
Hypothesis I_atom : S_atom f.
Hypothesis I_group : S_group f.
Hypothesis I_flags : S_flags f.
Hypothesis I_cond : S_cond f.

Ltac pb H E := match type of H with pbind ?m _ = _ => destruct m eqn:E; try discriminate; cbn [pbind] in H end.

Lemma step_re : S_re (S f).
Proof.
  intros st ix d r H. simpl parse_re in H.
  pb H E. destruct a as [[ix1 child] st1]. destruct (I_branch _ _ _ _ _ E (Forall_nil _)) as [He Hg]. cbn [fst snd] in *.
  pb H E2. destruct (byte_is re a 124) eqn:E124.
  - eapply OK3_trans; [exact He|]. eapply I_alt; eauto; cbn; lia.
  - destruct (_ && _); [discriminate|]. inv H. split; auto.
Qed.

Lemma step_alt : S_alt (S f).
Proof.
  intros st ix d ch r H Hch Hl1 Hside. simpl alt_loop in H. destruct (byte_is re ix 124).
  - pb H E. destruct a as [[nx child] st1]. destruct (I_branch _ _ _ _ _ E (Forall_nil _)) as [He Hg]. cbn [fst snd] in *.
    pb H E2. eapply OK3_trans; [exact He|]. eapply I_alt; eauto.
    + apply Forall_app. split; [eapply Forall_G_mono; eauto|constructor; auto].
    + rewrite app_length. cbn. lia.
    + right. rewrite app_length. cbn. lia.
  - inv H. split; [apply ext_refl|]. cbn [fst snd]. destruct Hside as [Hs|Hs]; [discriminate|]. now apply G_alt.
Qed.

Lemma finish_G (st : pst) ch : Forall (Q st) ch ->
  Q st (match ch with [] => Empty | [c] => c | _ => Concat ch end).
Proof.
  intros H. destruct ch as [|c [|c2 r]]; [apply Q_empty|now inversion H|now apply G_concat].
Qed.

Lemma step_branch : S_branch (S f).
Proof.
  intros st ix d ch r H Hch. simpl parse_branch in H. destruct (ix <? length re).
  - pb H E. destruct a as [[nx child] st1]. destruct (I_piece _ _ _ _ E) as [He Hg]. cbn [fst snd] in *.
    pose proof (Forall_G_mono _ _ _ He Hch) as Hch1.
    destruct (nx =? ix).
    + pose proof (finish_G st1 ch Hch1) as HG. destruct ch as [|c [|c2 r']]; inv H; split; auto.
    + eapply OK3_trans; [exact He|]. eapply I_branch; eauto.
      destruct child; auto; apply Forall_app; split; auto.
  - pose proof (finish_G st ch Hch) as HG. destruct ch as [|c [|c2 r']]; inv H; split; auto; apply ext_refl.
Qed.


Lemma step_piece : S_piece (S f).
Proof.
  intros st ix d r H. simpl parse_piece in H.
  pb H E. destruct a as [[ix0 child] st1]. destruct (I_atom _ _ _ _ E) as [He Hg]. cbn [fst snd] in *.
  pb H E2. rename a into ix1.
  assert (Hq : forall ixq lo hi r0,
    (if negb (is_repeatable child) then PErr ixq PTargetNotRepeatable else
     let! ix2 := optional_whitespace re (length re + 2) (p_flags st1) (ixq + 1) in
     let '(greedy0, ix3) := if (ix2 <? length re) && byte_is re ix2 63 then (false, ix2 + 1) else (true, ix2) in
     let greedy := xorb greedy0 (f_swap (p_flags st1)) in
     let node := Repeat child lo hi greedy in
     if (ix3 <? length re) && byte_is re ix3 43 then POk (ix3 + 1, AtomicGroup node, st1)
     else POk (ix3, node, st1)) = POk r0 -> OK3 st r0).
  { intros ixq lo hi r0 Hr. destruct (negb (is_repeatable child)); [discriminate|].
    pb Hr E3. destruct ((a <? length re) && byte_is re a 63); cbv beta iota zeta in Hr;
      match type of Hr with (if ?c then _ else _) = _ => destruct c end; inv Hr; split; auto; cbn [fst snd];
      try apply G_atomic; apply G_repeat; auto. }
  destruct (ix1 <? length re); [|inv H; split; auto].
  destruct (byte re ix1) as [b|]; [|discriminate].
  destruct (b =? 63); [eapply Hq; eauto|]. destruct (b =? 42); [eapply Hq; eauto|]. destruct (b =? 43); [eapply Hq; eauto|].
  destruct (b =? 123); [|inv H; split; auto].
  destruct (parse_repeat re (p_flags st1) ix1) as [[[nx lo] hi]| | | |]; try discriminate; try (inv H; split; auto; fail).
  eapply Hq; eauto.
Qed.

Lemma step_atom : S_atom (S f).
Proof.
  intros st ix d r H. simpl parse_atom in H.
  pb H E. rename a into ix1. destruct (ix1 =? length re); [inv H; split; [apply ext_refl|apply Q_empty]|].
  destruct (byte re ix1) as [b|] eqn:Eb; [|discriminate].
  destruct (b =? 46); [inv H; split; [apply ext_refl|apply Q_any]|].
  destruct (b =? 94); [inv H; split; [apply ext_refl|apply Q_assert]|].
  destruct (b =? 36); [inv H; split; [apply ext_refl|apply Q_assert]|].
  destruct (b =? 40); [eapply I_group; eauto|].
  destruct (b =? 92); [eapply parse_escape_G; eauto|].
  destruct (_ || _); [inv H; split; [apply ext_refl|apply Q_empty]|].
  destruct (b =? 91); [eapply parse_class_G; eauto|].
  destruct (length re <? ix1 + cp_len b) eqn:El; [discriminate|]. inv H. split; [apply ext_refl|]. cbn [fst snd]. apply Q_lit; auto.
Qed.

Lemma step_group : S_group (S f).
Proof.
  intros st ix d r H. rewrite parse_group_S in H. cbv zeta in H.
  destruct (Consts.MAX_RECURSION <=? d + 1); [discriminate|].
  pb H E. rename a into ix1.
  assert (Hbody : forall (node : expr -> expr) pos st0 r0, ext st st0 ->
    (forall s c, Q s c -> Q s (node c)) ->
    (let! r1 := parse_re re f st0 pos (d + 1) in
     let '(ix2, child, st1) := r1 in
     let! ix3 := check_for_close_paren re (p_flags st1) ix2 in
     POk (ix3, node child, st1)) = POk r0 -> OK3 st r0).
  { intros node pos st0 r0 Hst Hn Hr. pb Hr E1. destruct a as [[ix2 child] st1].
    destruct (I_re _ _ _ _ E1) as [He Hg]. cbn [fst snd] in *. pb Hr E2. inv Hr. split; cbn [fst snd].
    - eapply ext_trans; eauto.
    - now apply Hn. }
  repeat match type of H with
  | (if ?c then _ else _) = POk _ => destruct c
  end;
  try (eapply named_backref_G; [|exact H]; auto; fail);
  try (eapply I_cond; eauto; fail);
  try (eapply I_flags; eauto; fail);
  try match type of H with (match ?c with _ => _ end) = POk _ => destruct c as [[id skip]|]; [|discriminate] end.
  all: refine (Hbody _ _ _ r _ _ H); [apply incl_refl|].
  all: intros B c Hc; cbv beta; try (destruct (_ =? 2)); first [now apply G_la|now apply G_atomic|now apply G_group].
Qed.

Lemma step_flags : S_flags (S f).
Proof.
  intros st ixq d start ix neg old r H. simpl parse_flags in H.
  pb H E. rename a into ix1. destruct (ix1 =? length re); [discriminate|].
  destruct (byte re ix1) as [b|]; [|discriminate]. cbv zeta in H.
  destruct (_ || _).
  { eapply OK3_trans; [|eapply I_flags; eauto]. apply incl_refl. }
  destruct (b =? 117); [destruct neg; [discriminate|eapply I_flags; eauto]|].
  destruct (b =? 45).
  { destruct neg; [destruct (length re <? ix1 + cp_len b); discriminate|eapply I_flags; eauto]. }
  destruct (b =? 41).
  { destruct (_ || _); [destruct (length re <? ix1 + cp_len b); discriminate|]. inv H. split; [apply ext_refl|apply Q_empty]. }
  destruct (b =? 58); [|destruct (length re <? ix1 + cp_len b); discriminate].
  destruct (_ && _); [destruct (length re <? ix1 + cp_len b); discriminate|].
  pb H E1. destruct a as [[ix2 child] st1]. destruct (I_re _ _ _ _ E1) as [He Hg]. cbn [fst snd] in *.
  destruct (ix2 =? length re); [discriminate|]. destruct (negb (byte_is re ix2 41)); [discriminate|]. inv H.
  split; cbn [fst snd]; [exact He|]. eapply G_mono; [|exact Hg]. apply incl_refl.
Qed.


Lemma step_cond : S_cond (S f).
Proof.
  intros st ix d r H. simpl parse_conditional in H.
  destruct (length re <=? ix); [discriminate|]. destruct (byte re ix) as [b|]; [|discriminate].
  pb H E. destruct a as [[nx0 condition] st1].
  assert (Hc : ext st st1 /\ Q st1 condition).
  { destruct (is_digit b); [exact (numbered_backref_G st ix Backref _ (or_introl (fun g => eq_refl)) E)|].
    destruct (b =? 39); [exact (named_backref_G st ix _ _ _ Backref _ (or_introl (fun g => eq_refl)) E)|].
    destruct (b =? 60); [exact (named_backref_G st ix _ _ _ Backref _ (or_introl (fun g => eq_refl)) E)|].
    apply (I_re _ _ _ _ E). }
  destruct Hc as [He1 Hg1].
  pb H E2. rename a into nx. pb H E3. destruct a as [[e child] st2].
  destruct (I_re _ _ _ _ E3) as [He2 Hg2]. cbn [fst snd] in *.
  pose proof (G_mono _ _ _ He2 Hg1) as Hg1'.
  assert (Het : ext st st2) by (eapply ext_trans; eauto).
  destruct (e =? nx).
  - destruct condition; try discriminate. pb H E4. inv H. split; cbn [fst snd]; auto.
  - set (inner := match condition with Backref g => BackrefExistsCondition g | _ => condition end) in *.
    assert (Hin : Q st2 inner) by (unfold inner; destruct condition; auto; now apply G_bec).
    assert (Hpair : forall a b0, (let '(if_true, if_false) := (a, b0) in
              let! after := check_for_close_paren re (p_flags st2) e in
              POk (after, match if_true, if_false with Empty, Empty => inner | _, _ => Conditional inner if_true if_false end, st2)) = POk r ->
              Q st2 a -> Q st2 b0 -> OK3 st r).
    { intros a b0 Hr Ha Hb. cbv beta iota in Hr. pb Hr E5. inv Hr. split; cbn [fst snd]; auto.
      assert (HC : Q st2 (Conditional inner a b0)) by (now apply G_cond).
      destruct a; auto; destruct b0; auto. }
    destruct child;
      try (match type of Hg2 with Q _ ?c => apply (Hpair c Empty H Hg2); apply Q_empty end; fail).
    pose proof Hg2 as HgA. apply G_alt_inv in Hg2.
    destruct es as [|a [|b2 [|c3 rest]]].
    + apply (Hpair (Alt []) Empty H); [exact HgA|apply Q_empty].
    + inversion Hg2; subst. apply (Hpair a (Alt []) H); [auto|apply (G_alt1 st2 [a]); [cbn; lia|exact HgA]].
    + inversion Hg2 as [|? ? Ga Hr2]; subst. inversion Hr2; subst. apply (Hpair a b2 H); auto.
    + inversion Hg2 as [|? ? Ga Hr2]; subst. apply (Hpair a (Alt (b2 :: c3 :: rest)) H); [auto|apply G_alt; [cbn; lia|auto]].
Qed.
End Step.

Lemma parse_all : forall f, S_re f /\ S_alt f /\ S_branch f /\ S_piece f /\ S_atom f /\ S_group f /\ S_flags f /\ S_cond f.
Proof.
  induction f as [|f (I1 & I2 & I3 & I4 & I5 & I6 & I7 & I8)].
  - unfold S_re, S_alt, S_branch, S_piece, S_atom, S_group, S_flags, S_cond.
    split; [|split; [|split; [|split; [|split; [|split; [|split]]]]]]; intros; discriminate.
  - split; [now apply step_re|]. split; [now apply step_alt|]. split; [now apply step_branch|].
    split; [now apply step_piece|]. split; [now apply step_atom|]. split; [now apply step_group|].
    split; [now apply step_flags|now apply step_cond].
Qed.


Theorem parse_Q e st : parse re = POk (e, st) -> Q st e.
Proof.
  unfold parse. intros H. destruct (parse_re re (parse_fuel re) pst0 0 0) as [[[ix e0] st0]| | | |] eqn:E; try discriminate.
  cbn [pbind] in H. destruct (ix <? length re); [discriminate|]. inv H.
  destruct (proj1 (parse_all _) _ _ _ _ E) as [_ H1]. exact H1.
Qed.
End Gen.

(* ====== instance 1: back-reference bookkeeping and the placement of the \Z helper ====== *)
Lemma refs_mono B B' : incl B B' -> forall e, refs_ok True (fun g => In g B) e -> refs_ok True (fun g => In g B') e.
Proof.
  intros Hi. induction e using expr_ind'; intros Hr; try exact I.
  - rewrite refs_ok_concat in *. induction H as [|x r Hx Hrr IH]; [exact I|]. destruct Hr; split; auto.
  - rewrite refs_ok_alt in *. induction H as [|x r Hx Hrr IH]; [exact I|]. destruct Hr; split; auto.
  - cbn [refs_ok] in *. auto.
  - cbn [refs_ok] in *. auto.
  - cbn [refs_ok] in *. auto.
  - cbn [refs_ok] in *. auto.
  - cbn [refs_ok] in *. auto.
  - cbn [refs_ok] in *. auto.
  - cbn [refs_ok] in *. destruct Hr as (A & B0 & C). auto.
Qed.
Lemma G_mono s s' e : ext s s' -> G (p_backrefs s) e -> G (p_backrefs s') e.
Proof. intros He [H1 H2]. split; auto. eapply refs_mono; eauto. Qed.
Lemma G_leaf B e : (match e with
                    | Empty | Any _ | Assertion _ | Literal _ _ | KeepOut | ContinueFromPreviousMatchEnd
                    | SubroutineCall _ | Delegate _ _ _ (DClass _) => True | _ => False end) -> G B e.
Proof.
  destruct e; try (intros []; fail); try (intros _; split; [exact I|split; exact I]).
  destruct k; [intros _; split; [exact I|split; exact I]|intros []].
Qed.

Lemma Forall_GG_mono s s' l : ext s s' -> Forall (G (p_backrefs s)) l -> Forall (G (p_backrefs s')) l.
Proof. intros He H. eapply Forall_impl; [|exact H]. intros a. now apply G_mono. Qed.
Lemma G_concat B l : Forall (G B) l -> G B (Concat l).
Proof.
  intros H. unfold G, Z. rewrite refs_ok_concat, zok_concat, lbz_concat.
  induction H as [|x r (H1 & H2 & H3) Hr (I1 & I2 & I3)]; [repeat split|]. cbn. tauto.
Qed.
Lemma G_alt B l : Forall (G B) l -> G B (Alt l).
Proof.
  intros H. unfold G, Z. rewrite refs_ok_alt, zok_alt, lbz_alt.
  induction H as [|x r (H1 & H2 & H3) Hr (I1 & I2 & I3)]; [repeat split|]. cbn. tauto.
Qed.
Lemma G_alt_inv B l : G B (Alt l) -> Forall (G B) l.
Proof.
  unfold G, Z. rewrite refs_ok_alt, zok_alt, lbz_alt. induction l as [|x r IH]; intros (H1 & H2 & H3); constructor.
  - cbn in *. tauto.
  - apply IH. cbn in *. tauto.
Qed.

Section InstG.
Variable re : list nat.

Ltac inv H := inversion H; subst; clear H.

Lemma named_backref_G st ix o c ar mk r : (forall g, mk g = Backref g) \/ (forall g, mk g = SubroutineCall g) ->
  parse_named_backref re st ix o c ar mk = POk r ->
  ext st (snd r) /\ G (p_backrefs (snd r)) (snd (fst r)).
Proof.
  intros Hmk H. unfold parse_named_backref in H. destruct (length re <? ix); [discriminate|].
  destruct (parse_id _ _ _ _) as [[id skip]|]; [|discriminate].
  destruct (parse_group_ref st id) as [g|]; [|discriminate]. destruct (N.ltb g _); [|discriminate]. inv H. cbn [fst snd].
  split; [intros x Hx; right; exact Hx|]. destruct Hmk as [E|E]; rewrite E; (split; [|split]); cbn; auto.
Qed.
Lemma numbered_backref_G st ix mk r : (forall g, mk g = Backref g) \/ (forall g, mk g = SubroutineCall g) ->
  parse_numbered_backref re st ix mk = POk r ->
  ext st (snd r) /\ G (p_backrefs (snd r)) (snd (fst r)).
Proof.
  intros Hmk H. unfold parse_numbered_backref in H. destruct (parse_decimal re ix) as [[e g]|]; [|discriminate].
  destruct (N.ltb g _); [|discriminate]. inv H. cbn [fst snd].
  split; [intros x Hx; right; exact Hx|]. destruct Hmk as [E|E]; rewrite E; (split; [|split]); cbn; auto.
Qed.

Lemma parse_hex_G fl ix d r : parse_hex re fl ix d = POk r -> forall B, G B (snd r).
Proof.
  intros H B. unfold parse_hex in H. destruct (length re <=? ix); [discriminate|].
  destruct ((ix + d <=? length re) && forallb is_hex_digit (sub re ix (ix + d))).
  - destruct (_ || _); [discriminate|]. inv H. now apply G_leaf.
  - destruct (byte_is re ix 123); [|discriminate]. destruct (hex_braced _ _ _ _ _) as [eh| | | |]; try discriminate.
    cbn [pbind] in H. destruct (_ || _); [discriminate|]. inv H. now apply G_leaf.
Qed.

Lemma parse_escape_G st ix ic r : parse_escape re st ix ic = POk r ->
  ext st (snd r) /\ G (p_backrefs (snd r)) (snd (fst r)).
Proof.
  intros H. unfold parse_escape in H. destruct (byte re (ix + 1)) as [b|]; [|discriminate].
  cbv zeta in H.
  repeat match type of H with
  | (if ?c then _ else _) = POk _ => destruct c
  | (match ?c with _ => _ end) = POk _ => destruct c eqn:?
  | pbind ?m _ = POk _ => destruct m eqn:?; cbn [pbind] in H
  end; try discriminate;
  try (inv H; cbn [fst snd]; split; [apply ext_refl|]; first [now apply G_leaf|(split; [|split]); cbn; auto]; fail);
  try (eapply named_backref_G; [|eassumption]; auto; fail);
  try (eapply numbered_backref_G; [|eassumption]; auto; fail);
  try (inv H; cbn [fst snd]; split; [apply ext_refl|]; eapply parse_hex_G; eassumption).
Qed.

Lemma class_loop_ext : forall fuel st ix nest cls r, class_loop re fuel st ix nest cls = POk r -> ext st (snd r).
Proof.
  induction fuel as [|f IH]; intros st ix nest cls r H; cbn [class_loop] in H; [discriminate|].
  destruct (ix =? length re); [discriminate|]. destruct (byte re ix) as [b|]; [|discriminate].
  destruct (b =? 92).
  - destruct (parse_escape re st ix true) as [[[e x] st']| | | |] eqn:E; try discriminate. cbn [pbind] in H.
    pose proof (parse_escape_G _ _ _ _ E) as [He _]. cbn [snd] in He.
    destruct x; try discriminate; eapply ext_trans; try exact He; eapply IH; eauto.
  - destruct (b =? 91); [eapply IH; eauto|]. destruct (b =? 93).
    + destruct nest as [|[|n]]; [discriminate| |eapply IH; eauto]. inv H. apply ext_refl.
    + destruct (length re <? ix + cp_len b); [discriminate|]. eapply IH; eauto.
Qed.

Lemma parse_class_G st ix r : parse_class re st ix = POk r -> ext st (snd r) /\ G (p_backrefs (snd r)) (snd (fst r)).
Proof.
  intros H. unfold parse_class in H. destruct (byte_is re (ix + 1) 94); cbv zeta beta iota in H.
  all: match type of H with context[if ?c then _ else _] => destruct c end; cbv beta iota in H.
  all: match type of H with pbind ?m _ = _ => destruct m as [[[e cls] st']| | | |] eqn:E end; try discriminate; cbn [pbind] in H.
  all: inv H; cbn [fst snd]; split; [apply (class_loop_ext _ _ _ _ _ _ E)|now apply G_leaf].
Qed.


Definition QG (s : pst) (e : expr) : Prop := G (p_backrefs s) e.

Lemma zok_la c la : zok c -> zok (LookAround c la).
Proof. intros H. destruct c; cbn [zok] in *; auto. destruct k; auto. Qed.

(* the analyzer's back-reference set, as lib.rs builds it from the parser's *)
Definition bs_of (st : pst) : N -> bool := fun g => existsb (N.eqb g) (p_backrefs st).

Theorem parse_tree_ok e st : parse re = POk (e, st) ->
  refs_ok True (fun g => bs_of st g = true) e /\ zok e /\ lbz e.
Proof.
  intros Hp.
  assert (HG : QG st e).
  { refine (parse_Q re QG _ _ _ _ _ _ _ _ _ _ _ _ _ _ _ _ _ _ _ e st Hp); unfold QG.
    - intros s s' x. apply G_mono.
    - intros s. now apply G_leaf.
    - intros s b. now apply G_leaf.
    - intros s a. now apply G_leaf.
    - intros s ix b ci _ _. now apply G_leaf.
    - intros s l. apply G_concat.
    - intros s l _. apply G_alt.
    - intros s l _ _. apply G_alt. constructor.
    - intros s l. apply G_alt_inv.
    - intros s c lo hi gr (H1 & H2 & H3). split; [|split]; auto.
    - intros s c (H1 & H2 & H3). split; [|split]; auto.
    - intros s c (H1 & H2 & H3). split; [|split]; auto.
    - intros s c la (H1 & H2 & H3). split; [|split]; auto; [now apply zok_la|]. cbn [lbz]. split; auto. destruct la; auto.
    - intros s g (H1 & H2 & H3). split; [|split]; auto.
    - intros s c y n (I1 & I2 & I3) (A1 & A2 & A3) (B1 & B2 & B3). split; [|split]; cbn; auto.
    - apply named_backref_G.
    - apply numbered_backref_G.
    - apply parse_escape_G.
    - apply parse_class_G. }
  destruct HG as (H1 & H2 & H3). split; [|split; auto].
  unfold bs_of. clear -H1. revert H1. generalize (p_backrefs st). intros B.
  induction e using expr_ind'; intros Hr; try exact I.
  - rewrite refs_ok_concat in *. induction H as [|x r Hx Hrr IH]; [exact I|]. destruct Hr; split; auto.
  - rewrite refs_ok_alt in *. induction H as [|x r Hx Hrr IH]; [exact I|]. destruct Hr; split; auto.
  - cbn [refs_ok] in *. auto.
  - cbn [refs_ok] in *. auto.
  - cbn [refs_ok] in *. auto.
  - cbn [refs_ok] in *. apply existsb_exists. exists g. split; [exact Hr|apply N.eqb_refl].
  - cbn [refs_ok] in *. auto.
  - cbn [refs_ok] in *. apply existsb_exists. exists g. split; [exact Hr|apply N.eqb_refl].
  - cbn [refs_ok] in *. destruct Hr as (A & B0 & C). auto.
Qed.
End InstG.

(* ====== instance 2: literal nodes are single well-formed characters (patterns in ASCII) ====== *)
From FR Require Import Utf8Facts.
From Coq Require Import ZArith ZifyBool ZifyNat ZifyN.
Ltac Zify.zify_post_hook ::= Z.div_mod_to_equations.

Lemma cp_len_ascii b : b < 128 -> cp_len b = 1.
Proof. intros H. unfold cp_len. change Consts.CP_LEN_T1 with 128. destruct (Nat.ltb_spec b 128); [reflexivity|lia]. Qed.
Lemma wf_char_ascii b : b < 128 -> wf_char [b].
Proof.
  intros H. cbn [wf_char]. split; [|split; [constructor|]].
  - unfold is_cont. destruct (Nat.leb_spec 128 b); [lia|reflexivity].
  - now rewrite cp_len_ascii.
Qed.

Lemma wf_char_encode cp : (cp <= 1114111)%N -> wf_char (encode_utf8 cp).
Proof.
  intros Hc. unfold encode_utf8.
  destruct (N.ltb_spec cp 128); [apply wf_char_ascii; lia|].
  destruct (N.ltb_spec cp 2048).
  { cbn [wf_char]. split; [|split; [repeat constructor|]].
    - unfold is_cont. apply andb_false_iff. right. apply Nat.ltb_ge. lia.
    - unfold is_cont. apply andb_true_iff. split; [apply Nat.leb_le|apply Nat.ltb_lt]; lia.
    - unfold cp_len. change Consts.CP_LEN_T1 with 128. change Consts.CP_LEN_T2 with 224.
      destruct (Nat.ltb_spec (N.to_nat (192 + cp / 64)) 128); [lia|].
      destruct (Nat.ltb_spec (N.to_nat (192 + cp / 64)) 224); [reflexivity|lia]. }
  destruct (N.ltb_spec cp 65536).
  { cbn [wf_char]. split; [|split; [repeat constructor|]].
    - unfold is_cont. apply andb_false_iff. right. apply Nat.ltb_ge. lia.
    - unfold is_cont. apply andb_true_iff. split; [apply Nat.leb_le|apply Nat.ltb_lt]; lia.
    - unfold is_cont. apply andb_true_iff. split; [apply Nat.leb_le|apply Nat.ltb_lt]; lia.
    - unfold cp_len. change Consts.CP_LEN_T1 with 128. change Consts.CP_LEN_T2 with 224. change Consts.CP_LEN_T3 with 240.
      destruct (Nat.ltb_spec (N.to_nat (224 + cp / 4096)) 128); [lia|].
      destruct (Nat.ltb_spec (N.to_nat (224 + cp / 4096)) 224); [lia|].
      destruct (Nat.ltb_spec (N.to_nat (224 + cp / 4096)) 240); [reflexivity|lia]. }
  cbn [wf_char]. split; [|split; [repeat constructor|]].
  - unfold is_cont. apply andb_false_iff. right. apply Nat.ltb_ge. lia.
  - unfold is_cont. apply andb_true_iff. split; [apply Nat.leb_le|apply Nat.ltb_lt]; lia.
  - unfold is_cont. apply andb_true_iff. split; [apply Nat.leb_le|apply Nat.ltb_lt]; lia.
  - unfold is_cont. apply andb_true_iff. split; [apply Nat.leb_le|apply Nat.ltb_lt]; lia.
  - unfold cp_len. change Consts.CP_LEN_T1 with 128. change Consts.CP_LEN_T2 with 224. change Consts.CP_LEN_T3 with 240.
    destruct (Nat.ltb_spec (N.to_nat (240 + cp / 262144)) 128); [lia|].
    destruct (Nat.ltb_spec (N.to_nat (240 + cp / 262144)) 224); [lia|].
    destruct (Nat.ltb_spec (N.to_nat (240 + cp / 262144)) 240); [lia|reflexivity].
Qed.

Section InstW.
Variable re : list nat.
Hypothesis Hascii : Forall (fun b => b < 128) re.

Ltac inv H := inversion H; subst; clear H.

Lemma byte_ascii ix b : byte re ix = Some b -> b < 128.
Proof. unfold byte. intros H. apply nth_error_In in H. rewrite Forall_forall in Hascii. auto. Qed.
Lemma sub_one ix b : byte re ix = Some b -> sub re ix (ix + 1) = [b].
Proof.
  unfold byte, sub. replace (ix + 1 - ix) with 1 by lia. revert ix. induction re as [|x r IH]; intros [|ix] H; cbn in *; try discriminate.
  - inv H. destruct r; reflexivity.
  - apply IH; auto. now inversion Hascii.
Qed.

Lemma parse_hex_W fl ix d r : parse_hex re fl ix d = POk r -> wfe (snd r).
Proof.
  intros H. unfold parse_hex in H. destruct (length re <=? ix); [discriminate|].
  assert (Hfin : forall (e : nat) ds (r0 : nat * expr),
    (let cp := hex_value ds 0%N in
     if (N.leb 55296 cp && N.leb cp 57343) || N.ltb 1114111 cp
     then @PErr (nat * expr) ix PInvalidCodepointValue
     else POk (e, Literal (encode_utf8 cp) (f_casei fl))) = POk r0 -> wfe (snd r0)).
  { intros e ds r0 Hr. cbv zeta in Hr.
    destruct ((N.leb 55296 (hex_value ds 0) && N.leb (hex_value ds 0) 57343) || N.ltb 1114111 (hex_value ds 0)) eqn:Eo; [discriminate|]. inv Hr. cbn [snd wfe].
    apply wf_char_encode. apply orb_false_iff in Eo as [_ Eo]. apply N.ltb_ge in Eo. exact Eo. }
  destruct ((ix + d <=? length re) && forallb is_hex_digit (sub re ix (ix + d))); [eapply Hfin; eauto|].
  destruct (byte_is re ix 123); [|discriminate]. destruct (hex_braced _ _ _ _ _) as [eh| | | |]; try discriminate.
  cbn [pbind] in H. eapply Hfin; eauto.
Qed.

Lemma table_W b p : find (fun p => fst p =? b) Consts.ESCAPE_TABLE = Some p -> wf_char [snd p].
Proof.
  intros H. apply find_some in H as [H _]. cbn in H.
  repeat (destruct H as [<-|H]; [apply wf_char_ascii; cbn; lia|]). destruct H.
Qed.

Lemma parse_escape_W st ix ic r : parse_escape re st ix ic = POk r -> wfe (snd (fst r)).
Proof.
  intros H. unfold parse_escape in H. destruct (byte re (ix + 1)) as [b|] eqn:Eb; [|discriminate].
  cbv zeta in H.
  repeat match type of H with
  | (if ?c then _ else _) = POk _ => destruct c
  | (match find ?f ?t with _ => _ end) = POk _ => destruct (find f t) eqn:Ef
  | (match ?c with _ => _ end) = POk _ => destruct c eqn:?
  | pbind ?m _ = POk _ => destruct m eqn:?; cbn [pbind] in H
  end; try discriminate;
  try (inv H; cbn [fst snd wfe class_delegate make_literal]; first [exact I|reflexivity]; fail);
  try (unfold parse_named_backref in H; repeat match type of H with
        | (if ?c then _ else _) = POk _ => destruct c
        | (match ?c with _ => _ end) = POk _ => destruct c
        end; try discriminate; inv H; exact I);
  try (unfold parse_numbered_backref in H; repeat match type of H with
        | (if ?c then _ else _) = POk _ => destruct c
        | (match ?c with _ => _ end) = POk _ => destruct c
        end; try discriminate; inv H; exact I);
  try (inv H; cbn [fst snd]; eapply parse_hex_W; eassumption).
  - inv H. cbn [fst snd wfe make_literal]. eapply table_W; eauto.
  - inv H. cbn [fst snd wfe make_literal]. pose proof (byte_ascii _ _ Eb) as Hb. rewrite (cp_len_ascii b Hb).
    replace (ix + 1 + 1) with ((ix + 1) + 1) by lia. rewrite (sub_one _ _ Eb). now apply wf_char_ascii.
Qed.

Lemma wfe_of_list l : Forall wfe l -> wfe_list l.
Proof. induction 1; cbn; auto. Qed.
Lemma wfe_to_list l : wfe_list l -> Forall wfe l.
Proof. induction l; cbn; intros H; constructor; tauto. Qed.

Theorem parse_wfe_ascii e st : parse re = POk (e, st) -> wfe e.
Proof.
  intros Hp.
  refine (parse_Q re (fun _ x => wfe x) _ _ _ _ _ _ _ _ _ _ _ _ _ _ _ _ _ _ _ e st Hp).
  - auto.
  - intros; exact I.
  - intros; exact I.
  - intros; exact I.
  - intros s ix b ci Hb _. cbn [wfe]. pose proof (byte_ascii _ _ Hb) as Hlt. rewrite (cp_len_ascii b Hlt), (sub_one _ _ Hb).
    now apply wf_char_ascii.
  - intros s l H. rewrite wfe_concat. now apply wfe_of_list.
  - intros s l _ H. rewrite wfe_alt. now apply wfe_of_list.
  - intros; exact I.
  - intros s l H. rewrite wfe_alt in H. now apply wfe_to_list.
  - intros; assumption.
  - intros; assumption.
  - intros; assumption.
  - intros; assumption.
  - intros; exact I.
  - intros s c y n H1 H2 H3. cbn [wfe]. auto.
  - intros st0 ix o c ar mk r Hmk H. split; [apply (named_backref_G re st0 ix o c ar mk r Hmk H)|].
    unfold parse_named_backref in H. repeat match type of H with
        | (if ?c then _ else _) = POk _ => destruct c
        | (match ?c with _ => _ end) = POk _ => destruct c
        end; try discriminate. inv H. cbn [fst snd]. destruct Hmk as [E|E]; rewrite E; exact I.
  - intros st0 ix mk r Hmk H. split; [apply (numbered_backref_G re st0 ix mk r Hmk H)|].
    unfold parse_numbered_backref in H. repeat match type of H with
        | (if ?c then _ else _) = POk _ => destruct c
        | (match ?c with _ => _ end) = POk _ => destruct c
        end; try discriminate. inv H. cbn [fst snd]. destruct Hmk as [E|E]; rewrite E; exact I.
  - intros st0 ix ic r H. split; [apply (parse_escape_G re st0 ix ic r H)|now apply (parse_escape_W st0 ix ic r)].
  - intros st0 ix r H. split; [apply (parse_class_G re st0 ix r H)|].
    unfold parse_class in H. destruct (byte_is re (ix + 1) 94); cbv zeta beta iota in H.
    all: match type of H with context[if ?c then _ else _] => destruct c end; cbv beta iota in H.
    all: match type of H with pbind ?m _ = _ => destruct m as [[[e0 cls] st']| | | |] eqn:E end; try discriminate; cbn [pbind] in H.
    all: inv H; reflexivity.
Qed.
End InstW.

(* ====== instance 3: every alternation the parser builds has at least two alternatives, so the
   analysis never reaches its panic on an empty alternation ====== *)
Fixpoint alt2 (e : expr) : Prop :=
  match e with
  | Alt es => 2 <= length es /\ (fix go (l : list expr) : Prop := match l with [] => True | x :: r => alt2 x /\ go r end) es
  | Concat es => (fix go (l : list expr) : Prop := match l with [] => True | x :: r => alt2 x /\ go r end) es
  | Group c | LookAround c _ | Repeat c _ _ _ | AtomicGroup c => alt2 c
  | Conditional c y n => alt2 c /\ alt2 y /\ alt2 n
  | _ => True
  end.
Fixpoint alt2_list (l : list expr) : Prop := match l with [] => True | x :: r => alt2 x /\ alt2_list r end.
Lemma alt2_concat es : alt2 (Concat es) = alt2_list es. Proof. induction es; simpl in *; congruence. Qed.
Lemma alt2_alt es : alt2 (Alt es) = (2 <= length es /\ alt2_list es).
Proof. reflexivity. Qed.
Lemma alt2_of_list l : Forall alt2 l -> alt2_list l. Proof. induction 1; cbn; auto. Qed.
Lemma alt2_to_list l : alt2_list l -> Forall alt2 l. Proof. induction l; cbn; intros H; constructor; tauto. Qed.

Section InstA.
Variable re : list nat.
Ltac inv H := inversion H; subst; clear H.

Lemma parse_escape_alt2 st ix ic r : parse_escape re st ix ic = POk r -> alt2 (snd (fst r)).
Proof.
  intros H. unfold parse_escape in H. destruct (byte re (ix + 1)) as [b|] eqn:Eb; [|discriminate].
  cbv zeta in H.
  repeat match type of H with
  | (if ?c then _ else _) = POk _ => destruct c
  | (match ?c with _ => _ end) = POk _ => destruct c eqn:?
  | pbind ?m _ = POk _ => destruct m eqn:?; cbn [pbind] in H
  end; try discriminate;
  try (inv H; exact I);
  try (unfold parse_named_backref in H; repeat match type of H with
        | (if ?c then _ else _) = POk _ => destruct c
        | (match ?c with _ => _ end) = POk _ => destruct c
        end; try discriminate; inv H; exact I);
  try (unfold parse_numbered_backref in H; repeat match type of H with
        | (if ?c then _ else _) = POk _ => destruct c
        | (match ?c with _ => _ end) = POk _ => destruct c
        end; try discriminate; inv H; exact I).
  all: inv H; cbn [fst snd]; match goal with E : parse_hex _ _ _ _ = POk ?p |- _ =>
         unfold parse_hex in E; repeat match type of E with
         | (if ?c then _ else _) = POk _ => destruct c
         | pbind ?m _ = POk _ => destruct m eqn:?; cbn [pbind] in E
         | (let _ := _ in _) = POk _ => cbv zeta in E
         end; try discriminate; inv E; exact I end.
Qed.

Theorem parse_alt2 e st : parse re = POk (e, st) -> alt2 e.
Proof.
  intros Hp.
  refine (parse_Q re (fun _ x => alt2 x) _ _ _ _ _ _ _ _ _ _ _ _ _ _ _ _ _ _ _ e st Hp).
  - auto.
  - intros; exact I.
  - intros; exact I.
  - intros; exact I.
  - intros; exact I.
  - intros s l H. rewrite alt2_concat. now apply alt2_of_list.
  - intros s l Hl H. rewrite alt2_alt. split; [exact Hl|now apply alt2_of_list].
  - intros s l Hl H. rewrite alt2_alt in H. lia.
  - intros s l H. rewrite alt2_alt in H. now apply alt2_to_list.
  - intros; assumption.
  - intros; assumption.
  - intros; assumption.
  - intros; assumption.
  - intros; exact I.
  - intros s c y n H1 H2 H3. cbn [alt2]. auto.
  - intros st0 ix o c ar mk r Hmk H. split; [apply (named_backref_G re st0 ix o c ar mk r Hmk H)|].
    unfold parse_named_backref in H. repeat match type of H with
        | (if ?c then _ else _) = POk _ => destruct c
        | (match ?c with _ => _ end) = POk _ => destruct c
        end; try discriminate. inv H. cbn [fst snd]. destruct Hmk as [E|E]; rewrite E; exact I.
  - intros st0 ix mk r Hmk H. split; [apply (numbered_backref_G re st0 ix mk r Hmk H)|].
    unfold parse_numbered_backref in H. repeat match type of H with
        | (if ?c then _ else _) = POk _ => destruct c
        | (match ?c with _ => _ end) = POk _ => destruct c
        end; try discriminate. inv H. cbn [fst snd]. destruct Hmk as [E|E]; rewrite E; exact I.
  - intros st0 ix ic r H. split; [apply (parse_escape_G re st0 ix ic r H)|now apply (parse_escape_alt2 st0 ix ic r)].
  - intros st0 ix r H. split; [apply (parse_class_G re st0 ix r H)|].
    unfold parse_class in H. destruct (byte_is re (ix + 1) 94); cbv zeta beta iota in H.
    all: match type of H with context[if ?c then _ else _] => destruct c end; cbv beta iota in H.
    all: match type of H with pbind ?m _ = _ => destruct m as [[[e0 cls] st']| | | |] eqn:E end; try discriminate; cbn [pbind] in H.
    all: inv H; exact I.
Qed.
End InstA.

Lemma acheck_list_ne l : Forall (fun x => forall g, acheck g x <> Some APanicEmptyAlt) l -> forall g,
  (fix go (g : nat) (l : list expr) : option aerr :=
     match l with
     | [] => None
     | x :: r => match acheck g x with Some er => Some er | None => go (g + ngroups x) r end
     end) g l <> Some APanicEmptyAlt.
Proof.
  induction 1 as [|x r Hx Hr IH]; intros g; [discriminate|].
  destruct (acheck g x) eqn:E; [intros Hc; inversion Hc; subst; eapply Hx; eauto|apply IH].
Qed.

Lemma acheck_alt_cons g x r : acheck g (Alt (x :: r)) =
  (fix go (g : nat) (l : list expr) : option aerr :=
     match l with
     | [] => None
     | x :: r => match acheck g x with Some er => Some er | None => go (g + ngroups x) r end
     end) g (x :: r).
Proof. reflexivity. Qed.

Lemma acheck_no_empty_alt : forall e, alt2 e -> forall g, acheck g e <> Some APanicEmptyAlt.
Proof.
  induction e using expr_ind'; intros Ha g0; try (cbn; discriminate).
  - rewrite alt2_concat in Ha. apply alt2_to_list in Ha.
    assert (HF : Forall (fun x => forall g, acheck g x <> Some APanicEmptyAlt) es) by (rewrite Forall_forall in *; intros x Hx; apply H; auto).
    exact (acheck_list_ne es HF g0).
  - rewrite alt2_alt in Ha. destruct Ha as [Hl Ha]. destruct es as [|e0 es]; [cbn in Hl; lia|].
    apply alt2_to_list in Ha.
    assert (HF : Forall (fun x => forall g, acheck g x <> Some APanicEmptyAlt) (e0 :: es)) by (rewrite Forall_forall in *; intros x Hx; apply H; auto).
    exact (acheck_list_ne (e0 :: es) HF g0).
  - cbn [alt2 acheck] in *. auto.
  - cbn [alt2 acheck] in *. auto.
  - cbn [alt2 acheck] in *. auto.
  - cbn [acheck]. destruct (N.ltb _ _); discriminate.
  - cbn [alt2 acheck] in *. auto.
  - cbn [acheck]. destruct (N.ltb _ _); discriminate.
  - cbn [alt2 acheck] in *. destruct Ha as (A1 & A2 & A3).
    destruct (acheck g0 e1) eqn:E1; [intros Hc; inversion Hc; subst; eapply IHe1; eauto|].
    destruct (acheck (g0 + ngroups e1) e2) eqn:E2; [intros Hc; inversion Hc; subst; eapply IHe2; eauto|]. apply IHe3; auto.
Qed.
