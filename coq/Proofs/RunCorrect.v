(* RunCorrect.v — from the small-step reference machine (unbounded stack) to the bounded
   interpreter loop [grun_loop] over the reference state: the loop's outcome is the machine's
   halting outcome unless the loop gives up (StackOverflow, backtrack limit, out of fuel). *)
From FR Require Import Base State Utf8 Ast Analyze Sem Vm StateRefine VmRefine Machine.
From Coq Require Import Lia NArith.

Lemma rexec_max r o r' x : rexec r o = Some (r', x) -> r_max r' = r_max r.
Proof.
  destruct o; cbn [rexec];
    repeat match goal with
           | |- context [if ?a then _ else _] => destruct a
           | |- context [match ?a with _ => _ end] => destruct a
           end; intros H; inversion H; subst; reflexivity.
Qed.

Lemma r_op_max r o r' : r_op r o = Some r' -> r_max r' = r_max r.
Proof. unfold r_op. destruct (rexec r o) as [[r1 x]|] eqn:E; [|discriminate]. intros H; inversion H; subst. eapply rexec_max; eauto. Qed.
Lemma r_pop_max r r' pc ix : r_pop r = Some (r', pc, ix) -> r_max r' = r_max r.
Proof.
  unfold r_pop. destruct (rexec r OPop) as [[r1 x]|] eqn:E; [|discriminate]. destruct x; try discriminate.
  intros H; inversion H; subst. eapply rexec_max; eauto.
Qed.
Lemma r_spop_max r r' v : r_spop r = Some (r', v) -> r_max r' = r_max r.
Proof.
  unfold r_spop. destruct (rexec r OStackPop) as [[r1 x]|] eqn:E; [|discriminate]. destruct x; try discriminate.
  intros H; inversion H; subst. eapply rexec_max; eauto.
Qed.
Lemma r_push_u_max r pc ix r' : r_push_u r pc ix = Some r' -> r_max r' = r_max r.
Proof. unfold r_push_u. intros H; inversion H; reflexivity. Qed.

Lemma r_push_cases r pc ix : r_push r pc ix = None \/ r_push r pc ix = r_push_u r pc ix.
Proof.
  unfold r_push, r_push_u. cbn [rexec]. destruct (length (r_alts r) <? r_max r); [right; reflexivity|left; reflexivity].
Qed.

Section RC.
Variable cx : ctx.

Ltac red1 := cbn [iface1 iface1u i_push i_pop i_save i_get i_spush i_spop i_count i_cut i_result] in *.

Lemma fnla_max : forall fuel r tgt r', fnla rstate iface1u fuel r tgt = Some r' -> r_max r' = r_max r.
Proof.
  induction fuel as [|f IH]; intros r tgt r' H; cbn [fnla] in H; red1; [discriminate|].
  destruct (r_pop r) as [[[r1 ppc] pix]|] eqn:E; [|discriminate]. apply r_pop_max in E.
  destruct (ppc =? tgt); [inversion H; subst; auto|]. apply IH in H. congruence.
Qed.

Lemma save_groups_max : forall n r caps sg r', save_groups rstate iface1u r caps sg n = Some r' -> r_max r' = r_max r.
Proof.
  induction n as [|n IH]; intros r caps sg r' H; cbn [save_groups] in H; red1.
  - inversion H; auto.
  - destruct (getcap caps (2 * sg)); [|eauto]. destruct (getcap caps (2 * sg + 1)); [|eauto].
    destruct (r_save r (2 * sg) (V n0)) as [r1|] eqn:E1; [|discriminate]. apply r_op_max in E1.
    destruct (r_save r1 (2 * sg + 1) (V n1)) as [r2|] eqn:E2; [|discriminate]. apply r_op_max in E2.
    apply IH in H. congruence.
Qed.

Definition res_max (m : nat) (x : gires rstate) : Prop :=
  match x with INext _ _ r' | IFailed r' => r_max r' = m | _ => True end.

Ltac op_max :=
  repeat match goal with
         | H : r_save _ _ _ = Some _ |- _ => apply r_op_max in H
         | H : r_spush _ _ = Some _ |- _ => apply r_op_max in H
         | H : r_cut _ _ = Some _ |- _ => apply r_op_max in H
         | H : r_push_u _ _ _ = Some _ |- _ => apply r_push_u_max in H
         | H : r_spop _ = Some _ |- _ => apply r_spop_max in H
         | H : fnla _ _ _ _ _ = Some _ |- _ => apply fnla_max in H
         | H : save_groups _ _ _ _ _ _ = Some _ |- _ => apply save_groups_max in H
         end.

Lemma exec1u_max i pc ix r : res_max (r_max r) (gexec_insn cx rstate iface1u i pc ix r).
Proof.
  destruct i; cbn [gexec_insn]; unfold push_or, save_or_panic; red1;
    repeat match goal with
           | |- context [match ?a with _ => _ end] => destruct a eqn:?
           | |- context [if ?a then _ else _] => destruct a eqn:?
           end; cbn [res_max]; auto; op_max; congruence.
Qed.

(* the bounded interpreter does what the unbounded one does, or reports StackOverflow *)
Lemma exec1_vs_1u i pc ix r :
  gexec_insn cx rstate iface1 i pc ix r = IStackOverflow \/
  gexec_insn cx rstate iface1 i pc ix r = gexec_insn cx rstate iface1u i pc ix r.
Proof.
  assert (Hfn : forall fuel r tgt, fnla rstate iface1 fuel r tgt = fnla rstate iface1u fuel r tgt).
  { induction fuel as [|f IH]; intros r0 tgt; cbn [fnla]; red1; auto;
      try (destruct (r_pop r0) as [[[r1 ppc] pix]|]; auto; destruct (ppc =? tgt); auto). }
  assert (Hsg : forall n r caps sg, save_groups rstate iface1 r caps sg n = save_groups rstate iface1u r caps sg n).
  { induction n as [|n IH]; intros r0 caps sg; cbn [save_groups]; red1; auto;
      try (destruct (getcap caps (2 * sg)); auto; destruct (getcap caps (2 * sg + 1)); auto;
           destruct (r_save r0 (2 * sg) (V n0)); auto; destruct (r_save r1 (2 * sg + 1) (V n1)); auto). }
  destruct i; cbn [gexec_insn]; unfold push_or, save_or_panic; red1; rewrite ?Hfn, ?Hsg; try (right; reflexivity).
  all: repeat match goal with
            | |- context [r_push ?r0 ?a ?b] => destruct (r_push_cases r0 a b) as [E|E]; rewrite E; clear E
            | |- _ \/ match ?a with _ => _ end = _ => destruct a
            | |- _ \/ (if ?a then _ else _) = _ => destruct a
            end; auto.
Qed.

End RC.

Section Run.
Variable cx : ctx.
Variable p : prog.
Variable M : nat.
Notation P := (p_body p).
Notation steps := (steps cx P M).
Notation mstep := (mstep cx P M).

Lemma mkr_eta r : r_max r = M -> mkr M (r_slots r) (r_aux r) (r_alts r) = r.
Proof. destruct r; cbn; intros ->; reflexivity. Qed.

Definition gave_up (o : outcome) : Prop := o = RErrStack \/ o = RErrLimit \/ o = ROutOfFuel.

Lemma steps_halt o o' : steps (Halt o) (Halt o') -> o = o'.
Proof.
  remember (Halt o) as c eqn:Ec. remember (Halt o') as c' eqn:Ec'. intros H. revert o Ec.
  induction H as [c|c c' Hs IH]; intros o Ec; subst.
  - congruence.
  - apply IH; auto.
Qed.

(* what the loop does once an instruction has failed *)
Definition after_fail (lim : option N) (fuel : nat) (r : rstate) (bt : N) (st : stats) : outcome * stats :=
  if r_count r =? 0 then (RNoMatch, st) else
  let bt' := N.succ bt in
  let st := bump_back st in
  if match lim with Some l => N.ltb l bt' | None => false end then (RErrLimit, st)
  else match r_pop r with
       | Some (r'', pc', ix') => grun_loop cx rstate iface1 p lim fuel pc' ix' r'' bt' st
       | None => (RPanic, st)
       end.

Definition follows (lim : option N) (o : outcome) (c : cfg) : Prop :=
  match c with
  | Run pc ix sl aux K => forall fuel bt st,
      fst (grun_loop cx rstate iface1 p lim fuel pc ix (mkr M sl aux K) bt st) = o \/
      gave_up (fst (grun_loop cx rstate iface1 p lim fuel pc ix (mkr M sl aux K) bt st))
  | Fail K => forall fuel r bt st, r_alts r = K -> r_max r = M ->
      fst (after_fail lim fuel r bt st) = o \/ gave_up (fst (after_fail lim fuel r bt st))
  | Halt o0 => o0 = o
  end.

Lemma run_follows lim o : forall c, steps c (Halt o) -> follows lim o c.
Proof.
  intros c H. remember (Halt o) as h eqn:Eh. induction H as [c|c c' Hs IH]; subst.
  - reflexivity.
  - specialize (IH eq_refl). destruct c as [pc ix sl aux K|K|o0]; cbn [follows].
    + intros fuel bt st. destruct fuel as [|f]; [right; right; right; reflexivity|].
      cbn [grun_loop]. cbn [Machine.mstep] in IH.
      destruct (nth_error P pc) as [i|]; [|cbn [follows] in IH; left; cbn; congruence].
      pose proof (exec1u_max cx i pc ix (mkr M sl aux K)) as Hm.
      destruct (exec1_vs_1u cx i pc ix (mkr M sl aux K)) as [E|E]; rewrite E; [right; left; reflexivity|].
      destruct (gexec_insn cx rstate iface1u i pc ix (mkr M sl aux K)) as [pc' ix' r'|r'|sv| |];
        cbn [res_max mkr r_max] in Hm; cbn [follows] in IH.
      * rewrite <- (mkr_eta r' Hm) at 1 2. apply IH.
      * cbn [iface1 i_count i_pop]. apply (IH f r' bt _ eq_refl Hm).
      * left. cbn. congruence.
      * left. cbn. congruence.
      * left. cbn. congruence.
    + intros fuel r bt st HK HM. unfold after_fail, r_count. rewrite HK. destruct K as [|a rest]; cbn [length Nat.eqb].
      * left. cbn [Machine.mstep follows] in IH. cbn. congruence.
      * destruct (match lim with Some l => N.ltb l (N.succ bt) | None => false end); [right; right; left; reflexivity|].
        unfold r_pop. cbn [rexec]. rewrite HK. cbn [Machine.mstep follows] in IH.
        specialize (IH fuel (N.succ bt) (bump_back st)). unfold mkr in IH. rewrite HM. exact IH.
    + cbn [Machine.mstep follows] in IH. exact IH.
Qed.

(* the bounded loop over the reference state reports what the machine halts with, or gives up *)
Theorem loop_follows_machine lim fuel n o :
  steps (Run 0 (c_pos cx) (repeat MAXV n) [] []) (Halt o) ->
  fst (grun_loop cx rstate iface1 p lim fuel 0 (c_pos cx) (r_new n M) 0%N stats0) = o \/
  gave_up (fst (grun_loop cx rstate iface1 p lim fuel 0 (c_pos cx) (r_new n M) 0%N stats0)).
Proof. intros H. apply (run_follows lim o _ H). Qed.

End Run.
