(* Atomize.v — the tree the compiled program really implements: every block the compiler hands to
   the automata engine (compile.rs: a whole easy sub-expression outside a hard context, the
   constant-size easy prefix of a concatenation, its easy suffix) is wrapped in an atomic group,
   because the Delegate instruction yields the block's FIRST result only (a deterministic block —
   Proofs/Det.v — has at most one result anyway and is left as it is).  [atomize] follows
   Compiler::visit decision for decision.  It changes neither group numbering nor the size facts
   nor well-formedness, so every semantic lemma applies to the atomized tree as well. *)
From FR Require Import Base Utf8 Utf8Facts Ast Analyze Sem ExprLemmas SemSound Vm Compile Scope.
From Coq Require Import Lia NArith.

Section Atom.
Variable bs : N -> bool.

Definition wrapA (l : list expr) : list expr :=
  match l with [] => [] | _ => [AtomicGroup (Concat l)] end.

Fixpoint atomize (e : expr) (g : nat) (hc : bool) {struct e} : expr :=
  if negb hc && negb (hard bs g e) then (if det e then e else AtomicGroup e) else
  match e with
  | Concat es =>
      let kids := with_groups g es in
      let pe := prefix_count bs g es in
      let rest := skipn pe kids in
      let sl :=
        if hc
        then take_while_count (fun p => const_size (fst p) && negb (hard bs (snd p) (fst p))) (rev rest)
        else take_while_count (fun p => negb (hard bs (snd p) (fst p))) (rev rest) in
      let sb := length es - sl in
      Concat (wrapA (firstn pe es)
              ++ (fix go (i g : nat) (l : list expr) : list expr :=
                    match l with
                    | [] => []
                    | x :: r => if (pe <=? i) && (i <? sb) then atomize x g true :: go (S i) (g + ngroups x) r
                                else go (S i) (g + ngroups x) r
                    end) 0 g es
              ++ wrapA (skipn sb es))
  | Alt es =>
      Alt ((fix go (g : nat) (l : list expr) : list expr :=
              match l with [] => [] | x :: r => atomize x g hc :: go (g + ngroups x) r end) g es)
  | Group c => Group (atomize c (S g) hc)
  | Repeat c lo hi gr =>
      if N.eqb lo 0 && N.eqb hi 1 then Repeat (atomize c g hc) lo hi gr
      else Repeat (atomize c g (hc || hard bs g e)) lo hi gr
  | LookAround c la =>
      match la, c with
      | (LookBehind | LookBehindNeg), Alt es =>
          if const_size c then LookAround (atomize c g false) la
          else LookAround (Alt ((fix go (g : nat) (l : list expr) : list expr :=
                                   match l with [] => [] | x :: r => atomize x g false :: go (g + ngroups x) r end) g es)) la
      | _, _ => LookAround (atomize c g false) la
      end
  | AtomicGroup c => AtomicGroup (atomize c g false)
  | Conditional c y n =>
      Conditional (atomize c g hc) (atomize y (g + ngroups c) hc) (atomize n (g + ngroups c + ngroups y) hc)
  | _ => e
  end.

(* children of a list, each with its own first group number *)
Fixpoint atom_list (hc : bool) (g : nat) (l : list expr) : list expr :=
  match l with [] => [] | x :: r => atomize x g hc :: atom_list hc (g + ngroups x) r end.

Definition mid_atom (pe sb : nat) := fix go (i g : nat) (l : list expr) : list expr :=
  match l with
  | [] => []
  | x :: r => if (pe <=? i) && (i <? sb) then atomize x g true :: go (S i) (g + ngroups x) r
              else go (S i) (g + ngroups x) r
  end.

(* ---------- unfolding ---------- *)
Lemma atomize_easy e g hc : negb hc && negb (hard bs g e) = true ->
  atomize e g hc = if det e then e else AtomicGroup e.
Proof. intros H. destruct e; cbn [atomize]; rewrite H; reflexivity. Qed.

Lemma mid_atom_after pe sb : forall l i g, sb <= i -> mid_atom pe sb i g l = [].
Proof.
  induction l as [|x r IH]; intros i g H; cbn [mid_atom]; auto.
  destruct (Nat.ltb_spec i sb); [lia|]. rewrite andb_false_r. apply IH. lia.
Qed.
Lemma mid_atom_before pe sb l' : forall a i g, i + length a <= pe ->
  mid_atom pe sb i g (a ++ l') = mid_atom pe sb (i + length a) (g + ngroups_list a) l'.
Proof.
  induction a as [|x a IH]; intros i g H; cbn [app length].
  - unfold ngroups_list. cbn. now rewrite !Nat.add_0_r.
  - cbn [length] in H. cbn [mid_atom]. destruct (Nat.leb_spec pe i); [lia|]. cbn [andb].
    rewrite IH by lia. change (ngroups_list (x :: a)) with (ngroups x + ngroups_list a). f_equal; lia.
Qed.
Lemma mid_atom_mid pe sb C : forall B i g, pe <= i -> i + length B = sb ->
  mid_atom pe sb i g (B ++ C) = atom_list true g B.
Proof.
  induction B as [|x B IH]; intros i g H1 H2; cbn [app length atom_list] in *.
  - apply mid_atom_after. lia.
  - cbn [mid_atom]. destruct (Nat.leb_spec pe i); [|lia]. destruct (Nat.ltb_spec i sb); [|lia]. cbn [andb].
    rewrite IH by lia. reflexivity.
Qed.

Lemma atomize_group c g hc : negb hc && negb (hard bs g (Group c)) = false ->
  atomize (Group c) g hc = Group (atomize c (S g) hc).
Proof. intros Hs. cbn [atomize]. now rewrite Hs. Qed.
Lemma atomize_atomic c g hc : negb hc && negb (hard bs g (AtomicGroup c)) = false ->
  atomize (AtomicGroup c) g hc = AtomicGroup (atomize c g false).
Proof. intros Hs. cbn [atomize]. now rewrite Hs. Qed.
Lemma atomize_cond c y n g hc : negb hc && negb (hard bs g (Conditional c y n)) = false ->
  atomize (Conditional c y n) g hc =
  Conditional (atomize c g hc) (atomize y (g + ngroups c) hc) (atomize n (g + ngroups c + ngroups y) hc).
Proof. intros Hs. cbn [atomize]. now rewrite Hs. Qed.
Lemma atomize_repeat c lo hi gr g hc : negb hc && negb (hard bs g (Repeat c lo hi gr)) = false ->
  atomize (Repeat c lo hi gr) g hc =
  Repeat (atomize c g (if N.eqb lo 0 && N.eqb hi 1 then hc else hc || hard bs g (Repeat c lo hi gr))) lo hi gr.
Proof. intros Hs. cbn [atomize]. rewrite Hs. destruct (N.eqb lo 0 && N.eqb hi 1); reflexivity. Qed.

Lemma atomize_alt es g hc : negb hc && negb (hard bs g (Alt es)) = false ->
  atomize (Alt es) g hc = Alt (atom_list hc g es).
Proof.
  intros Hs. cbn [atomize]. rewrite Hs. f_equal. clear Hs.
  match goal with |- ?f0 g es = _ => set (f := f0) end.
  generalize g. induction es as [|x r IH]; intros g1; [reflexivity|].
  change (f g1 (x :: r)) with (atomize x g1 hc :: f (g1 + ngroups x) r). cbn [atom_list]. f_equal. apply IH.
Qed.

Lemma atomize_lb_split es g hc la : negb hc && negb (hard bs g (LookAround (Alt es) la)) = false ->
  (la = LookBehind \/ la = LookBehindNeg) -> const_size (Alt es) = false ->
  atomize (LookAround (Alt es) la) g hc = LookAround (Alt (atom_list false g es)) la.
Proof.
  intros Hs Hla Hc. cbn [atomize]. rewrite Hs. clear Hs.
  assert (E : (fix go (g : nat) (l : list expr) : list expr :=
                 match l with [] => [] | x :: r => atomize x g false :: go (g + ngroups x) r end) g es
              = atom_list false g es).
  { match goal with |- ?f0 g es = _ => set (f := f0) end.
    clear Hc. generalize g. induction es as [|x r IH]; intros g1; [reflexivity|].
    change (f g1 (x :: r)) with (atomize x g1 false :: f (g1 + ngroups x) r). cbn [atom_list]. f_equal. apply IH. }
  destruct Hla as [-> | ->]; rewrite Hc, E; reflexivity.
Qed.

(* the split of a concatenation, as the compiler makes it *)
Definition cat_pe (g : nat) (es : list expr) : nat := prefix_count bs g es.
Definition cat_sb (hc : bool) (g : nat) (es : list expr) : nat :=
  let rest := skipn (prefix_count bs g es) (with_groups g es) in
  length es -
  (if hc then take_while_count (fun p => const_size (fst p) && negb (hard bs (snd p) (fst p))) (rev rest)
   else take_while_count (fun p => negb (hard bs (snd p) (fst p))) (rev rest)).

Lemma take_while_count_le' {A} (f : A -> bool) l : take_while_count f l <= length l.
Proof. induction l; simpl; auto. destruct (f a); lia. Qed.
Lemma with_groups_length' : forall es g, length (with_groups g es) = length es.
Proof. induction es; intros; simpl; auto. Qed.
Lemma prefix_count_le' : forall es g, prefix_count bs g es <= length es.
Proof.
  unfold prefix_count. induction es as [|x r IH]; intros g; auto.
  destruct (const_size x && negb (hard bs g x)); cbn [length]; [|lia]. specialize (IH (g + ngroups x)). lia.
Qed.
Lemma cat_bounds hc g es : cat_pe g es <= cat_sb hc g es <= length es.
Proof.
  unfold cat_pe, cat_sb. pose proof (prefix_count_le' es g).
  set (tw := if hc then _ else _).
  assert (tw <= length es - prefix_count bs g es).
  { unfold tw. destruct hc; (etransitivity; [apply take_while_count_le'|]);
      rewrite rev_length, skipn_length, with_groups_length'; lia. }
  lia.
Qed.

Lemma atomize_concat es g hc : negb hc && negb (hard bs g (Concat es)) = false ->
  let pe := cat_pe g es in let sb := cat_sb hc g es in
  let A := firstn pe es in let B := firstn (sb - pe) (skipn pe es) in let C := skipn sb es in
  es = A ++ B ++ C /\
  atomize (Concat es) g hc = Concat (wrapA A ++ atom_list true (g + ngroups_list A) B ++ wrapA C).
Proof.
  intros Hs pe sb A B C. pose proof (cat_bounds hc g es) as Hb. fold pe sb in Hb.
  assert (Hes : es = A ++ B ++ C).
  { unfold A, B, C. rewrite <- (firstn_skipn pe es) at 1. f_equal.
    rewrite <- (firstn_skipn (sb - pe) (skipn pe es)) at 1. f_equal. rewrite skipn_add. f_equal. lia. }
  split; [exact Hes|].
  cbn [atomize]. rewrite Hs. fold (cat_pe g es). fold pe.
  change (length es - _) with sb.
  fold (mid_atom pe sb). fold A C. f_equal. f_equal. f_equal.
  assert (LA : length A = pe) by (unfold A; apply firstn_length_le; lia).
  assert (LB : length B = sb - pe) by (unfold B; apply firstn_length_le; rewrite skipn_length; lia).
  rewrite Hes at 1. rewrite (mid_atom_before pe sb (B ++ C) A 0 g) by lia.
  rewrite (mid_atom_mid pe sb C B) by lia. reflexivity.
Qed.

(* ---------- what atomize keeps ---------- *)
Definition keeps (e e' : expr) : Prop :=
  ngroups e' = ngroups e /\ (wfe e -> wfe e') /\ (zok e -> zok e') /\
  min_size e' = min_size e /\ const_size e' = const_size e.

Lemma keeps_refl e : keeps e e. Proof. repeat split; auto. Qed.
Lemma keeps_atomic e : keeps e (AtomicGroup e). Proof. repeat split; auto. Qed.

Lemma sat_add_assoc a b c : sat_add (sat_add a b) c = sat_add a (sat_add b c).
Proof. unfold sat_add. lia. Qed.
Lemma sat_add_0_r a : (a <= usize_max)%N -> sat_add a 0 = a.
Proof. unfold sat_add. lia. Qed.
Lemma sat_add_0_l a : (a <= usize_max)%N -> sat_add 0 a = a.
Proof. unfold sat_add. lia. Qed.
Lemma sat_add_bound a b : (sat_add a b <= usize_max)%N.
Proof. unfold sat_add. lia. Qed.
Lemma min_cat_bound : forall l acc, (acc <= usize_max)%N -> (min_cat l acc <= usize_max)%N.
Proof. induction l as [|x r IH]; intros acc H; cbn [min_cat]; auto. apply IH, sat_add_bound. Qed.
Lemma min_cat_shift : forall l a b, min_cat l (sat_add a b) = sat_add a (min_cat l b).
Proof. induction l as [|x r IH]; intros a b; cbn [min_cat]; auto. rewrite sat_add_assoc. apply IH. Qed.
Lemma min_cat_app : forall a b acc, min_cat (a ++ b) acc = min_cat b (min_cat a acc).
Proof. induction a as [|x a IH]; intros b acc; cbn [app min_cat]; auto. Qed.
Lemma min_cat_from0 l acc : (acc <= usize_max)%N -> min_cat l acc = sat_add acc (min_cat l 0).
Proof. intros H. rewrite <- min_cat_shift. now rewrite sat_add_0_r. Qed.
Lemma const_cat_app a b : const_cat (a ++ b) = const_cat a && const_cat b.
Proof. induction a as [|x a IH]; cbn [app const_cat]; auto. now rewrite IH, andb_assoc. Qed.
Lemma wfe_list_app a b : wfe_list (a ++ b) <-> wfe_list a /\ wfe_list b.
Proof. induction a as [|x a IH]; cbn [app wfe_list]; tauto. Qed.
Lemma zok_list_app a b : zok_list (a ++ b) <-> zok_list a /\ zok_list b.
Proof. induction a as [|x a IH]; cbn [app zok_list]; tauto. Qed.
Lemma ngl_app' a b : ngroups_list (a ++ b) = ngroups_list a + ngroups_list b.
Proof. unfold ngroups_list. induction a as [|x a IH]; cbn; auto. rewrite IH. lia. Qed.

(* the five measures of a list of children *)
Definition lkeeps (l l' : list expr) : Prop :=
  ngroups_list l' = ngroups_list l /\ (wfe_list l -> wfe_list l') /\ (zok_list l -> zok_list l') /\
  (forall acc, (acc <= usize_max)%N -> min_cat l' acc = min_cat l acc) /\ const_cat l' = const_cat l.

Lemma lkeeps_nil : lkeeps [] []. Proof. repeat split; auto. Qed.
Lemma lkeeps_cons x x' r r' : keeps x x' -> lkeeps r r' -> lkeeps (x :: r) (x' :: r').
Proof.
  intros (N1 & W1 & Z1 & M1 & C1) (N2 & W2 & Z2 & M2 & C2). split; [|split; [|split; [|split]]].
  - change (ngroups x' + ngroups_list r' = ngroups x + ngroups_list r). lia.
  - intros [H1 H2]. split; auto.
  - intros [H1 H2]. split; auto.
  - intros acc Ha. cbn [min_cat]. rewrite M1. apply M2, sat_add_bound.
  - cbn [const_cat]. now rewrite C1, C2.
Qed.
Lemma lkeeps_app a a' b b' : lkeeps a a' -> lkeeps b b' -> lkeeps (a ++ b) (a' ++ b').
Proof.
  intros (N1 & W1 & Z1 & M1 & C1) (N2 & W2 & Z2 & M2 & C2). split; [|split; [|split; [|split]]].
  - rewrite !ngl_app'. lia.
  - rewrite !wfe_list_app. tauto.
  - rewrite !zok_list_app. tauto.
  - intros acc Ha. rewrite !min_cat_app. rewrite M1 by auto. apply M2, min_cat_bound, Ha.
  - rewrite !const_cat_app. now rewrite C1, C2.
Qed.
Lemma lkeeps_wrapA A : lkeeps A (wrapA A).
Proof.
  destruct A as [|x r]; [apply lkeeps_nil|]. cbn [wrapA]. split; [|split; [|split; [|split]]].
  - change (ngroups (AtomicGroup (Concat (x :: r))) + 0 = ngroups_list (x :: r)).
    change (ngroups (AtomicGroup (Concat (x :: r)))) with (ngroups (Concat (x :: r))). rewrite ngroups_concat. lia.
  - intros H. cbn [wfe_list]. split; [|exact I]. change (wfe (Concat (x :: r))). now rewrite wfe_concat.
  - intros H. cbn [zok_list]. split; [|exact I]. change (zok (Concat (x :: r))). now rewrite zok_concat.
  - intros acc Ha. rewrite (min_cat_from0 (x :: r) acc Ha). rewrite <- min_concat. reflexivity.
  - cbn [const_cat]. change (const_size (AtomicGroup (Concat (x :: r)))) with (const_size (Concat (x :: r))).
    rewrite const_concat, andb_true_r. reflexivity.
Qed.

Lemma keeps_concat l l' : lkeeps l l' -> keeps (Concat l) (Concat l').
Proof.
  intros (N1 & W1 & Z1 & M1 & C1). split; [|split; [|split; [|split]]].
  - now rewrite !ngroups_concat.
  - now rewrite !wfe_concat.
  - now rewrite !zok_concat.
  - rewrite !min_concat. apply M1. unfold usize_max. lia.
  - now rewrite !const_concat.
Qed.

Lemma alts_sizes : forall r r', Forall2 keeps r r' -> forall m cz,
  min_alts r' m = min_alts r m /\ const_alts r' m cz = const_alts r m cz.
Proof.
  induction 1 as [|y y' r r' (N1 & W1 & Z1 & M1 & C1) Hr IH]; intros m cz; cbn [min_alts const_alts]; auto.
  rewrite M1, C1. apply IH.
Qed.
Lemma keeps_alt l l' : Forall2 keeps l l' -> keeps (Alt l) (Alt l').
Proof.
  intros HF. assert (HL : lkeeps l l').
  { induction HF; [apply lkeeps_nil|apply lkeeps_cons; auto]. }
  destruct HL as (N1 & W1 & Z1 & _ & _). split; [|split; [|split; [|split]]].
  - now rewrite !ngroups_alt.
  - now rewrite !wfe_alt.
  - now rewrite !zok_alt.
  - destruct HF as [|x x' r r' (N2 & W2 & Z2 & M2 & C2) Hr]; [reflexivity|].
    rewrite !min_alt_eq, M2. apply (proj1 (alts_sizes r r' Hr _ true)).
  - destruct HF as [|x x' r r' (N2 & W2 & Z2 & M2 & C2) Hr]; [reflexivity|].
    rewrite !const_alt_eq, M2, C2. apply (proj2 (alts_sizes r r' Hr _ _)).
Qed.

Lemma zok_la_intro c la : zok c -> zok (LookAround c la).
Proof. intros H. destruct c; try exact H. destruct k; [exact H|exact I]. Qed.

Lemma atom_list_keeps hc : forall l, Forall (fun x => forall g hc, keeps x (atomize x g hc)) l ->
  forall g, Forall2 keeps l (atom_list hc g l).
Proof. induction 1 as [|x r Hx Hr IH]; intros g; cbn [atom_list]; constructor; auto. Qed.

Lemma atomize_la e la g hc : negb hc && negb (hard bs g (LookAround e la)) = false ->
  match la, e with (LookBehind | LookBehindNeg), Alt _ => negb (const_size e) | _, _ => false end = false ->
  atomize (LookAround e la) g hc = LookAround (atomize e g false) la.
Proof.
  intros Hs Hn. cbn [atomize]. rewrite Hs.
  destruct la; try reflexivity; destruct e; try reflexivity; apply negb_false_iff in Hn; rewrite Hn; reflexivity.
Qed.

Definition KP (x : expr) : Prop := forall g hc, keeps x (atomize x g hc).

Lemma atomize_keeps_aux : forall e, KP e /\ Forall KP (alts_of e).
Proof.
  induction e using expr_ind'.
  all: try match goal with |- KP ?e /\ Forall KP (alts_of ?e) =>
         match e with
         | Alt _ => idtac
         | _ => assert (H1 : KP e); [|split; [exact H1|constructor; [exact H1|constructor]]] end end.
  all: try (intros g0 hc;
    match goal with |- keeps ?x _ => destruct (negb hc && negb (hard bs g0 x)) eqn:Hs end;
     [rewrite atomize_easy by exact Hs; match goal with |- keeps ?x (if det ?x then _ else _) => destruct (det x) end;
      [apply keeps_refl|apply keeps_atomic]|]);
    try (cbn [atomize]; rewrite Hs; apply keeps_refl).
  - (* Concat *)
    assert (Hk : Forall KP es) by (eapply Forall_impl; [|exact H]; intros a Ha; apply Ha).
    destruct (atomize_concat es g0 hc Hs) as [Hes Ha]. rewrite Ha. rewrite Hes at 1.
    apply keeps_concat. apply lkeeps_app; [apply lkeeps_wrapA|]. apply lkeeps_app; [|apply lkeeps_wrapA].
    assert (HB : Forall KP (firstn (cat_sb hc g0 es - cat_pe g0 es) (skipn (cat_pe g0 es) es))).
    { rewrite Hes in Hk. apply Forall_app in Hk as [_ Hk]. apply Forall_app in Hk as [HB _]. exact HB. }
    pose proof (atom_list_keeps true _ HB (g0 + ngroups_list (firstn (cat_pe g0 es) es))) as HF.
    clear - HF. induction HF; [apply lkeeps_nil|apply lkeeps_cons; auto].
  - (* Alt *)
    assert (Hk : Forall KP es) by (eapply Forall_impl; [|exact H]; intros a Ha; apply Ha).
    split; [|exact Hk]. intros g0 hc.
    destruct (negb hc && negb (hard bs g0 (Alt es))) eqn:Hs.
    + rewrite atomize_easy by exact Hs. destruct (det (Alt es)); [apply keeps_refl|apply keeps_atomic].
    + rewrite (atomize_alt es g0 hc Hs). apply keeps_alt. now apply atom_list_keeps.
  - (* Group *)
    destruct IHe as [IHe _].
    cbn [atomize]. rewrite Hs. destruct (IHe (S g0) hc) as (N1 & W1 & Z1 & M1 & C1). repeat split; cbn; auto.
  - (* LookAround *)
    destruct IHe as [IHe IHalts].
    assert (Hgen : forall c', keeps e c' -> (forall i s c, e = Delegate i s c DNlStarEnd -> c' = e) ->
               keeps (LookAround e la) (LookAround c' la)).
    { intros c' (N1 & W1 & Z1 & M1 & C1) Hsp. split; [cbn; auto|]. split; [cbn; auto|]. split; [|split; reflexivity].
      intros Hz. destruct e; try (apply zok_la_intro, Z1; exact Hz).
      destruct k; [apply zok_la_intro, Z1; exact Hz|]. rewrite (Hsp _ _ _ eq_refl). exact I. }
    destruct (match la, e with (LookBehind | LookBehindNeg), Alt _ => negb (const_size e) | _, _ => false end) eqn:Esp.
    + destruct e as [| | | | |es| | | | | | | | | | |]; try (destruct la; discriminate).
      assert (Hla : la = LookBehind \/ la = LookBehindNeg) by (destruct la; auto; discriminate).
      assert (Hc : const_size (Alt es) = false) by (destruct la; try discriminate; now apply negb_true_iff in Esp).
      rewrite (atomize_lb_split es g0 hc la Hs Hla Hc). apply Hgen; [|intros; discriminate].
      apply keeps_alt. apply atom_list_keeps. exact IHalts.
    + rewrite (atomize_la e la g0 hc Hs Esp). apply Hgen; [apply IHe|].
      intros i s c ->. reflexivity.
  - (* Repeat *)
    destruct IHe as [IHe _].
    cbn [atomize]. rewrite Hs. destruct (N.eqb lo 0 && N.eqb hi 1);
      match goal with |- keeps _ (Repeat (atomize e ?g ?h) _ _ _) => destruct (IHe g h) as (N1 & W1 & Z1 & M1 & C1) end;
      repeat split; cbn [ngroups wfe zok min_size const_size]; auto; congruence.
  - (* AtomicGroup *)
    destruct IHe as [IHe _].
    cbn [atomize]. rewrite Hs. destruct (IHe g0 false) as (N1 & W1 & Z1 & M1 & C1). repeat split; cbn; auto.
  - (* Conditional *)
    destruct IHe1 as [IHe1 _]. destruct IHe2 as [IHe2 _]. destruct IHe3 as [IHe3 _].
    cbn [atomize]. rewrite Hs.
    destruct (IHe1 g0 hc) as (N1 & W1 & Z1 & M1 & C1).
    destruct (IHe2 (g0 + ngroups e1) hc) as (N2 & W2 & Z2 & M2 & C2).
    destruct (IHe3 (g0 + ngroups e1 + ngroups e2) hc) as (N3 & W3 & Z3 & M3 & C3).
    split; [cbn; lia|]. split; [cbn; tauto|]. split; [cbn; tauto|]. split; cbn; congruence.
Qed.

Theorem atomize_keeps : forall e g hc, keeps e (atomize e g hc).
Proof. intros e. apply (proj1 (atomize_keeps_aux e)). Qed.

End Atom.
