(* Utf8Facts.v — the byte-level cursor primitives step exactly one character on text that is a
   concatenation of well-formed encoded characters (lead byte, continuation bytes, length as
   the lead byte announces), and Rust's byte-level boundary test coincides with the abstract
   notion of boundary.  This is where "characters, not bytes" is discharged. *)
From FR Require Import Base Utf8.
From Coq Require Import Lia.

Definition wf_char (c : list nat) : Prop :=
  match c with
  | [] => False
  | b :: r => is_cont b = false /\ Forall (fun x => is_cont x = true) r /\ length c = cp_len b
  end.

Definition valid_chars (cs : list (list nat)) : Prop := Forall wf_char cs.
Definition valid_text (s : list nat) : Prop := exists cs, valid_chars cs /\ s = concat cs.

(* i is a char boundary: the total length of a prefix of the character list *)
Inductive bnd : list (list nat) -> nat -> Prop :=
| bnd_0 cs : bnd cs 0
| bnd_S c cs i : bnd cs i -> bnd (c :: cs) (length c + i).

Lemma cp_len_cases b : cp_len b = 1 \/ cp_len b = 2 \/ cp_len b = 3 \/ cp_len b = 4.
Proof. unfold cp_len. destruct (b <? _); auto. destruct (b <? _); auto. destruct (b <? _); auto. Qed.

Lemma bnd_end cs : bnd cs (length (concat cs)).
Proof. induction cs; simpl; [constructor|]. rewrite app_length. now constructor. Qed.

Lemma bnd_le cs i : bnd cs i -> i <= length (concat cs).
Proof. induction 1; simpl; [lia|]. rewrite app_length; lia. Qed.

Lemma wf_len c : wf_char c -> 1 <= length c.
Proof. destruct c; simpl; [tauto|lia]. Qed.

(* stepping forward: what Any / a class / the parser do *)
Lemma step_fwd cs i : valid_chars cs -> bnd cs i -> i < length (concat cs) ->
  exists b, nth_error (concat cs) i = Some b /\ is_cont b = false /\ bnd cs (i + cp_len b).
Proof.
  intros W B. revert W. induction B as [cs|c cs i B IH]; intros W Hlt.
  - destruct cs as [|c cs]; simpl in *; [lia|]. inversion W as [|? ? Wc Wcs]; subst.
    destruct c as [|b r]; simpl in Wc; [tauto|]. destruct Wc as (Hb & Hr & Hl).
    exists b; repeat split; auto.
    rewrite <- Hl. replace (S (length r)) with (length (b :: r) + 0) by (simpl; lia).
    constructor. constructor.
  - inversion W as [|? ? Wc Wcs]; subst. simpl in Hlt. rewrite app_length in Hlt.
    destruct (IH Wcs ltac:(lia)) as (b & Hn & Hb & Hbnd).
    exists b. simpl. rewrite nth_error_app2 by lia. replace (length c + i - length c) with i by lia.
    repeat split; auto.
    replace (length c + i + cp_len b) with (length c + (i + cp_len b)) by lia.
    now constructor.
Qed.

Lemma bnd_is_boundary cs i : valid_chars cs -> bnd cs i -> is_boundary (concat cs) i = true.
Proof.
  intros W B. unfold is_boundary. destruct (Nat.eqb_spec i (length (concat cs))); auto.
  pose proof (bnd_le _ _ B). destruct (step_fwd cs i W B ltac:(lia)) as (b & Hn & Hb & _).
  now rewrite Hn, Hb.
Qed.

Lemma nth_cont_inside c cs j : wf_char c -> 0 < j < length c ->
  exists b, nth_error (concat (c :: cs)) j = Some b /\ is_cont b = true.
Proof.
  intros Wc Hj. destruct c as [|b0 r]; simpl in Wc; [tauto|]. destruct Wc as (_ & Hr & _).
  simpl in Hj. destruct j as [|j]; [lia|]. simpl.
  assert (Hjr : j < length r) by lia.
  destruct (nth_error r j) as [b|] eqn:E; [|apply nth_error_None in E; lia].
  exists b. rewrite nth_error_app1 by lia. split; auto.
  rewrite Forall_forall in Hr. apply Hr. eapply nth_error_In; eauto.
Qed.

Lemma is_boundary_bnd cs : valid_chars cs -> forall i, is_boundary (concat cs) i = true -> bnd cs i.
Proof.
  induction cs as [|c cs IH]; intros W i H.
  - unfold is_boundary in H; simpl in H. destruct i; [constructor|]. simpl in H. discriminate.
  - inversion W as [|? ? Wc Wcs]; subst. pose proof (wf_len _ Wc) as Hl.
    destruct (Nat.eq_dec i 0) as [->|Hi0]; [constructor|].
    destruct (Nat.lt_ge_cases i (length c)) as [Hlt|Hge].
    + exfalso. destruct (nth_cont_inside c cs i Wc ltac:(lia)) as (b & Hn & Hb).
      unfold is_boundary in H. simpl in H, Hn. rewrite app_length in H.
      destruct (Nat.eqb_spec i (length c + length (concat cs))); [lia|].
      rewrite Hn, Hb in H. discriminate.
    + replace i with (length c + (i - length c)) by lia. constructor. apply IH; auto.
      unfold is_boundary in *. simpl in H. rewrite app_length in H.
      destruct (Nat.eqb_spec i (length c + length (concat cs))).
      * replace (i - length c) with (length (concat cs)) by lia. now rewrite Nat.eqb_refl.
      * destruct (Nat.eqb_spec (i - length c) (length (concat cs))); auto.
        rewrite nth_error_app2 in H by lia. exact H.
Qed.

(* ---------- stepping backward: prev_codepoint_ix ---------- *)

Lemma prev_go_lt s : forall g k r, prev_cp_go s g k = Some r -> r < k.
Proof.
  induction g; intros k r H; [discriminate|]. destruct k; [discriminate|]. cbn [prev_cp_go] in H.
  destruct (nth_error s k); [|discriminate].
  destruct (is_cont n); [apply IHg in H; lia|inversion H; lia].
Qed.

Lemma prev_go_shift c t : forall f i j, prev_cp_go t f i = Some j ->
  prev_cp_go (c ++ t) f (length c + i) = Some (length c + j).
Proof.
  induction f as [|f IH]; intros i j H; [discriminate|]. destruct i as [|i]; [discriminate|].
  replace (length c + S i) with (S (length c + i)) by lia. cbn [prev_cp_go] in *.
  rewrite nth_error_app2 by lia. replace (length c + i - length c) with i by lia.
  destruct (nth_error t i) as [x|]; [|discriminate]. destruct (is_cont x).
  - now apply IH.
  - inversion H; subst; reflexivity.
Qed.

Lemma prev_go_in_char b r t : is_cont b = false -> Forall (fun x => is_cont x = true) r ->
  forall k f, k <= length r -> k <= f -> prev_cp_go ((b :: r) ++ t) (S f) (S k) = Some 0.
Proof.
  intros Hb Hr. induction k as [|k IHk]; intros f Hk Hf.
  - cbn. now rewrite Hb.
  - destruct f as [|f]; [lia|]. cbn [prev_cp_go].
    assert (Hn : exists x, nth_error ((b :: r) ++ t) (S k) = Some x /\ is_cont x = true).
    { cbn. destruct (nth_error r k) as [x|] eqn:E; [|apply nth_error_None in E; lia].
      exists x. rewrite nth_error_app1 by lia. split; auto.
      rewrite Forall_forall in Hr. apply Hr. eapply nth_error_In; eauto. }
    destruct Hn as (x & Hx & Hcx). rewrite Hx, Hcx. apply IHk; lia.
Qed.

Lemma prev_go_fuel s : forall f g i j, prev_cp_go s f i = Some j -> f <= g -> prev_cp_go s g i = Some j.
Proof.
  induction f as [|f IH]; intros g i j H Hg; [discriminate|]. destruct g as [|g]; [lia|].
  destruct i as [|i]; [discriminate|]. cbn [prev_cp_go] in *.
  destruct (nth_error s i) as [x|]; [|discriminate]. destruct (is_cont x); auto. apply (IH g); auto. lia.
Qed.

(* one step back from a boundary lands on the previous boundary, whose character ends here *)
Lemma step_back cs i : valid_chars cs -> bnd cs i -> 0 < i ->
  exists j b, prev_cp (concat cs) i = Some j /\ bnd cs j /\
              nth_error (concat cs) j = Some b /\ j + cp_len b = i.
Proof.
  intros W B. revert W. induction B as [cs|c cs i B IH]; intros W Hpos; [lia|].
  inversion W as [|? ? Wc Wcs]; subst.
  destruct (Nat.eq_dec i 0) as [->|Hi].
  - rewrite Nat.add_0_r. exists 0.
    destruct c as [|b r]; cbn in Wc; [tauto|]. destruct Wc as (Hb & Hr & Hl). exists b.
    cbn [concat length]. repeat split.
    + unfold prev_cp. cbn [length]. apply prev_go_in_char; auto; lia.
    + constructor.
    + cbn; lia.
  - destruct (IH Wcs ltac:(lia)) as (j & b & Hp & Hbj & Hn & Hj).
    exists (length c + j), b. cbn [concat]. repeat split.
    + unfold prev_cp in *. eapply prev_go_fuel; [apply prev_go_shift; exact Hp|lia].
    + now constructor.
    + rewrite nth_error_app2 by lia. replace (length c + j - length c) with j by lia. auto.
    + lia.
Qed.

(* next_utf8 from a boundary inside the text is the next boundary *)
Lemma next_utf8_bnd cs i : valid_chars cs -> bnd cs i -> i < length (concat cs) ->
  bnd cs (next_utf8 (concat cs) i).
Proof.
  intros W B H. destruct (step_fwd cs i W B H) as (b & Hn & _ & Hb). unfold next_utf8. now rewrite Hn.
Qed.
