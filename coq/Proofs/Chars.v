(* Chars.v — counting characters between byte offsets of valid text: [dist cs i j n] says j is
   reached from the boundary i by n steps of the cursor primitive (i + cp_len (text[i])). *)
From FR Require Import Base Utf8 Utf8Facts.
From Coq Require Import Lia.

Lemma lit_at_spec t : forall l ix,
  lit_at t ix l = true <->
  ix + length l <= length t /\ forall k, k < length l -> nth_error t (ix + k) = nth_error l k.
Proof.
  induction l as [|c r IH]; intros ix; cbn [lit_at length].
  - rewrite Nat.leb_le. split; [intros H; split; [lia|intros; lia]|intros [H _]; lia].
  - destruct (nth_error t ix) as [b|] eqn:E.
    + rewrite andb_true_iff, Nat.eqb_eq, IH. split.
      * intros (-> & H1 & H2). split; [lia|]. intros [|k] Hk; simpl.
        -- now rewrite Nat.add_0_r.
        -- replace (ix + S k) with (S ix + k) by lia. apply H2. lia.
      * intros (H1 & H2). split; [|split; [lia|]].
        -- specialize (H2 0 ltac:(lia)). rewrite Nat.add_0_r, E in H2. simpl in H2. congruence.
        -- intros k Hk. specialize (H2 (S k) ltac:(lia)). simpl in H2.
           replace (S ix + k) with (ix + S k) by lia. exact H2.
    + split; [discriminate|]. intros (H1 & _). apply nth_error_None in E. lia.
Qed.

Section Chars.
Variable cs : list (list nat).
Hypothesis W : valid_chars cs.
Let t := concat cs.

(* the character that starts at a boundary inside the text *)
Lemma char_at i : bnd cs i -> i < length t ->
  exists c, wf_char c /\ (forall k, k < length c -> nth_error t (i + k) = nth_error c k) /\
            bnd cs (i + length c).
Proof.
  unfold t. intros B. revert W. clear t. induction B as [cs0|c cs0 i B IH]; intros W Hlt.
  - destruct cs0 as [|c cs0]; simpl in *; [lia|]. inversion W as [|? ? Wc Wcs]; subst.
    exists c. split; auto. split.
    + intros k Hk. simpl. now rewrite nth_error_app1 by lia.
    + change (0 + length c) with (length c). replace (length c) with (length c + 0) at 1 by lia.
      constructor. constructor.
  - inversion W as [|? ? Wc Wcs]; subst. simpl in Hlt. rewrite app_length in Hlt.
    destruct (IH Wcs ltac:(lia)) as (c' & Wc' & Hk' & Hb).
    exists c'. split; auto. split.
    + intros k Hk. simpl. rewrite nth_error_app2 by lia.
      replace (length c + i + k - length c) with (i + k) by lia. auto.
    + replace (length c + i + length c') with (length c + (i + length c')) by lia. now constructor.
Qed.

Lemma char_at_len c b : wf_char c -> nth_error c 0 = Some b -> length c = cp_len b.
Proof. destruct c as [|b0 r]; simpl; [tauto|]. intros (_ & _ & H) E. inversion E; subst. exact H. Qed.

(* no boundary strictly inside a character *)
Lemma no_bnd_inside i b k : bnd cs i -> nth_error t i = Some b -> i < k < i + cp_len b -> ~ bnd cs k.
Proof.
  intros B E Hk Bk.
  assert (Hlt : i < length t) by (apply nth_error_Some; congruence).
  destruct (char_at i B Hlt) as (c & Wc & Hc & Bn).
  pose proof (Hc 0 (wf_len _ Wc)) as H0. rewrite Nat.add_0_r, E in H0.
  pose proof (char_at_len c b Wc (eq_sym H0)) as Hl.
  destruct c as [|b0 r]; [destruct Wc|]. destruct Wc as (_ & Hr & _).
  assert (Hin : k - i < length (b0 :: r)) by lia.
  pose proof (Hc (k - i) Hin) as Hk'. replace (i + (k - i)) with k in Hk' by lia.
  destruct (k - i) as [|j] eqn:Ej; [lia|]. simpl in Hk'.
  destruct (nth_error r j) as [x|] eqn:Ex; [|apply nth_error_None in Ex; simpl in Hin; lia].
  assert (Hx : is_cont x = true).
  { rewrite Forall_forall in Hr. apply Hr. eapply nth_error_In; eauto. }
  pose proof (bnd_is_boundary cs k W Bk) as Hb. unfold is_boundary in Hb. fold t in Hb.
  pose proof (bnd_le _ _ Bn) as Hle. fold t in Hle.
  destruct (Nat.eqb_spec k (length t)); [lia|]. rewrite Hk', Hx in Hb. discriminate.
Qed.

Inductive dist : nat -> nat -> nat -> Prop :=
| d0 i : bnd cs i -> dist i i 0
| dS i j n b : dist i j n -> nth_error t j = Some b -> dist i (j + cp_len b) (S n).

Lemma dist_bnd i j n : dist i j n -> bnd cs i /\ bnd cs j /\ i <= j.
Proof.
  induction 1 as [i B|i j n b D (Bi & Bj & Hle) E]; [auto|].
  assert (Hlt : j < length t) by (apply nth_error_Some; congruence).
  destruct (step_fwd cs j W Bj Hlt) as (b' & E' & _ & Bn). fold t in E'.
  assert (b' = b) by congruence. subst. repeat split; auto. lia.
Qed.

Lemma dist_ge i j n : dist i j n -> i + n <= j.
Proof. induction 1; [lia|]. pose proof (cp_len_cases b). lia. Qed.

Lemma dist_trans i j k n m : dist i j n -> dist j k m -> dist i k (n + m).
Proof.
  intros D1 D2. induction D2 as [j B|j k m b D2 IH E].
  - now rewrite Nat.add_0_r.
  - replace (n + S m) with (S (n + m)) by lia. econstructor; eauto.
Qed.

Lemma dist_step i b : bnd cs i -> nth_error t i = Some b -> dist i (i + cp_len b) 1.
Proof. intros B E. econstructor; [constructor; auto|exact E]. Qed.

(* same start, same count: same end *)
Lemma dist_fun i j n : dist i j n -> forall j', dist i j' n -> j = j'.
Proof.
  induction 1 as [i B|i j n b D IH E]; intros j' D'; inversion D'; subst; auto.
  specialize (IH _ H0). subst. congruence.
Qed.

(* same start, same end: same count *)
Lemma dist_count i j n : dist i j n -> forall m, dist i j m -> n = m.
Proof.
  induction 1 as [i B|i j n b D IH E]; intros m D'.
  - inversion D'; subst; auto. apply dist_ge in H. pose proof (cp_len_cases b). lia.
  - inversion D' as [|i' j' m' b' D'' E']; subst.
    + apply dist_ge in D. pose proof (cp_len_cases b). lia.
    + destruct (dist_bnd _ _ _ D) as (_ & Bj & _). destruct (dist_bnd _ _ _ D'') as (_ & Bj' & _).
      destruct (Nat.lt_trichotomy j j') as [Hlt|[->|Hgt]].
      * exfalso. apply (no_bnd_inside j b j' Bj E); auto. pose proof (cp_len_cases b'). lia.
      * f_equal. apply IH; auto.
      * exfalso. apply (no_bnd_inside j' b' j Bj' E'); auto. pose proof (cp_len_cases b). lia.
Qed.

(* any two ordered boundaries are some number of characters apart *)
Lemma bnd_dist : forall d i j, j - i <= d -> bnd cs i -> bnd cs j -> i <= j -> exists n, dist i j n.
Proof.
  induction d as [|d IH]; intros i j Hd Bi Bj Hle.
  - assert (i = j) by lia. subst. exists 0. now constructor.
  - destruct (Nat.eq_dec i j) as [->|Hne]; [exists 0; now constructor|].
    destruct (step_back cs j W Bj ltac:(lia)) as (p & b & _ & Bp & Ep & Hp). fold t in Ep.
    assert (Hip : i <= p).
    { destruct (Nat.le_gt_cases i p); auto. exfalso.
      apply (no_bnd_inside p b i Bp Ep); auto. lia. }
    pose proof (cp_len_cases b).
    destruct (IH i p ltac:(lia) Bi Bp Hip) as (n & D). exists (S n). rewrite <- Hp. econstructor; eauto.
Qed.

(* Backref: text that equals the slice between two boundaries spans the same characters *)
Lemma copy_dist lo hi n : dist lo hi n -> forall ix, bnd cs ix ->
  lit_at t ix (slice t lo hi) = true -> dist ix (ix + (hi - lo)) n.
Proof.
  induction 1 as [i B|i j n b D IH E]; intros ix Bx Hl.
  - rewrite Nat.sub_diag, Nat.add_0_r. now constructor.
  - destruct (dist_bnd _ _ _ D) as (Bi & Bj & Hij).
    assert (Hjlt : j < length t) by (apply nth_error_Some; congruence).
    destruct (step_fwd cs j W Bj Hjlt) as (b' & E' & _ & Bn). fold t in E'.
    assert (b' = b) by congruence. subst b'. pose proof (bnd_le _ _ Bn) as Hn. fold t in Hn.
    apply lit_at_spec in Hl. destruct Hl as (Hlen & Hk).
    assert (Hsl : length (slice t i (j + cp_len b)) = j + cp_len b - i).
    { unfold slice. rewrite firstn_length, skipn_length. lia. }
    rewrite Hsl in *.
    assert (Hnth : forall k, k < j + cp_len b - i -> nth_error (slice t i (j + cp_len b)) k = nth_error t (i + k)).
    { intros k Hk'. unfold slice. rewrite nth_error_firstn'.
      - now rewrite nth_error_skipn'.
      - exact Hk'. }
    assert (Hpre : lit_at t ix (slice t i j) = true).
    { apply lit_at_spec. assert (Hsl2 : length (slice t i j) = j - i).
      { unfold slice. rewrite firstn_length, skipn_length. lia. }
      rewrite Hsl2. split; [lia|]. intros k Hk'.
      rewrite Hk by lia. rewrite Hnth by lia. unfold slice.
      rewrite nth_error_firstn' by lia. now rewrite nth_error_skipn'. }
    specialize (IH ix Bx Hpre).
    replace (ix + (j + cp_len b - i)) with (ix + (j - i) + cp_len b) by lia.
    econstructor; eauto.
    rewrite Hk by (pose proof (cp_len_cases b); lia). rewrite Hnth by (pose proof (cp_len_cases b); lia).
    replace (i + (j - i)) with j by lia. exact E.
Qed.

End Chars.
