(* FromPattern.v — the end-to-end theorem started from the PATTERN STRING: parse (Model/Parse.v),
   analyse and compile (Model/Analyze.v, Compile.v: [regex_new]), run (Model/Vm.v).  The parser
   theorem (ParseInv.v) discharges the hypotheses of EndToEnd.v that are facts about the tree:
   back-reference bookkeeping and the placement of the \Z helper.  What remains as hypotheses:
   [wfe e] (literal nodes are single well-formed characters: true of the parser's output on valid
   UTF-8 patterns, not proved here; executable form [wfeb]) and [condok] (no conditional under an
   atomic cut: the statement is false there, known finding F-condleak). *)
From FR Require Import Base State Utf8 Utf8Facts Chars Ast Analyze Sem ExprLemmas SemSound Vm Compile
                       Machine Param ArrowA CompileCorrect RunCorrect EndToEnd Parse ParseInv.
From Coq Require Import Lia NArith.

(* no conditional inside the body of an atomic group, of a look-around, or in the condition
   position of a conditional *)
Fixpoint condok (b : bool) (e : expr) : Prop :=
  match e with
  | Concat es | Alt es => (fix go (l : list expr) : Prop := match l with [] => True | x :: r => condok b x /\ go r end) es
  | Group c | Repeat c _ _ _ => condok b c
  | LookAround c _ | AtomicGroup c => condok false c
  | Conditional c y n => if b then condok false c /\ condok b y /\ condok b n else False
  | _ => True
  end.
Fixpoint condok_list (b : bool) (l : list expr) : Prop := match l with [] => True | x :: r => condok b x /\ condok_list b r end.
Lemma condok_concat b es : condok b (Concat es) = condok_list b es. Proof. induction es; simpl in *; congruence. Qed.
Lemma condok_alt b es : condok b (Alt es) = condok_list b es. Proof. induction es; simpl in *; congruence. Qed.

Lemma rok_of : forall e b, lbz e -> condok b e -> rok b e.
Proof.
  induction e using expr_ind'; intros b Hz Hc; try exact I.
  - rewrite lbz_concat in Hz. rewrite condok_concat in Hc. rewrite rok_concat.
    induction H as [|x r Hx Hr IH]; [exact I|]. destruct Hz, Hc. split; auto.
  - rewrite lbz_alt in Hz. rewrite condok_alt in Hc. rewrite rok_alt.
    induction H as [|x r Hx Hr IH]; [exact I|]. destruct Hz, Hc. split; auto.
  - cbn [lbz condok rok] in *. auto.
  - cbn [lbz condok rok] in *. destruct Hz as [Hz1 Hz2]. split; auto. intros Hb. destruct la; auto; discriminate.
  - cbn [lbz condok rok] in *. auto.
  - cbn [lbz condok rok] in *. auto.
  - cbn [lbz condok rok] in *. destruct b; [|contradiction]. destruct Hz as (Z1 & Z2 & Z3). destruct Hc as (C1 & C2 & C3). auto.
Qed.

Theorem pattern_vm_follows_reference :
  forall (re : list nat) (e : expr) (st : pst), parse re = POk (e, st) ->
  wfe e -> condok true e ->
  forall (p : prog) (n : nat), regex_new (bs_of st) e = inr (RFancy p n) ->
  forall cs : list (list nat), valid_chars cs ->
  forall cx : ctx, c_text cx = concat cs -> (N.of_nat (length (concat cs)) < usize_max)%N ->
  bnd cs (c_pos cx) ->
  forall (max_st : nat) (lim : option N) (fuelv : nat),
  match fst (vm_run cx p max_st lim fuelv) with
  | RMatch sv => search_list cx e (S (length (c_text cx))) = Some (firstn (2 * S (ngroups e)) sv)
  | RNoMatch => search_list cx e (S (length (c_text cx))) = None
  | RPanic => False
  | _ => True
  end.
Proof.
  intros re e st Hp Hw Hc p n Hn cs W cx Ht Hl Hpos max_st lim fuelv.
  destruct (parse_tree_ok re e st Hp) as (Hr & Hz & Hlz).
  unfold regex_new in Hn. destruct (acheck 0 (wrap e)) eqn:Ea; [discriminate|].
  destruct (hard (bs_of st) 1 e); [|discriminate].
  destruct (compile (bs_of st) (wrap e)) as [er|p0] eqn:Ec; [discriminate|]. inversion Hn; subst p0 n. clear Hn.
  apply (vm_agrees_with_reference_all cs W cx Ht Hl Hpos (bs_of st) e p Ec).
  - split; [cbn; tauto|]. split; [cbn; tauto|]. split; [exact Ea|]. cbn. split; [exact I|]. split; [|exact I].
    now apply rok_of.
  - cbn. split; [exact I|]. split; [|exact I]. exact Hr.
Qed.

(* for a pattern written in ASCII (escapes such as \x{e9} included) the parser theorem also gives
   [wfe]: nothing is assumed about the tree *)
Theorem ascii_pattern_vm_follows_reference :
  forall (re : list nat), Forall (fun b => b < 128) re ->
  forall (e : expr) (st : pst), parse re = POk (e, st) ->
  condok true e ->
  forall (p : prog) (n : nat), regex_new (bs_of st) e = inr (RFancy p n) ->
  forall cs : list (list nat), valid_chars cs ->
  forall cx : ctx, c_text cx = concat cs -> (N.of_nat (length (concat cs)) < usize_max)%N ->
  bnd cs (c_pos cx) ->
  forall (max_st : nat) (lim : option N) (fuelv : nat),
  match fst (vm_run cx p max_st lim fuelv) with
  | RMatch sv => search_list cx e (S (length (c_text cx))) = Some (firstn (2 * S (ngroups e)) sv)
  | RNoMatch => search_list cx e (S (length (c_text cx))) = None
  | RPanic => False
  | _ => True
  end.
Proof.
  intros re Ha e st Hp Hc. apply (pattern_vm_follows_reference re e st Hp); auto.
  eapply parse_wfe_ascii; eauto.
Qed.

(* ... and for EVERY pattern that is valid UTF-8 (what a Rust &str is): the parser only ever
   indexes the pattern at character boundaries (Proofs/ParseIdx.v), so every literal node is one
   well-formed character.  Nothing is assumed about the tree. *)
From FR Require Import ParseIdx.
Theorem utf8_pattern_vm_follows_reference :
  forall (re : list nat), valid_text re ->
  forall (e : expr) (st : pst), parse re = POk (e, st) ->
  condok true e ->
  forall (p : prog) (n : nat), regex_new (bs_of st) e = inr (RFancy p n) ->
  forall cs : list (list nat), valid_chars cs ->
  forall cx : ctx, c_text cx = concat cs -> (N.of_nat (length (concat cs)) < usize_max)%N ->
  bnd cs (c_pos cx) ->
  forall (max_st : nat) (lim : option N) (fuelv : nat),
  match fst (vm_run cx p max_st lim fuelv) with
  | RMatch sv => search_list cx e (S (length (c_text cx))) = Some (firstn (2 * S (ngroups e)) sv)
  | RNoMatch => search_list cx e (S (length (c_text cx))) = None
  | RPanic => False
  | _ => True
  end.
Proof.
  intros re Hv e st Hp Hc. apply (pattern_vm_follows_reference re e st Hp); auto.
  eapply parse_wfe; eauto.
Qed.

(* ---------- ... and up through the API layer: Regex::new(pattern)?.find_iter(text) ---------- *)
From FR Require Import KeepOut Api ApiProofs ApiVm.

(* a parsed, VM-compiled pattern is inside [VmScope] *)
Lemma pattern_vm_scope re e st p n cs :
  valid_text re -> parse re = POk (e, st) -> condok true e -> kok true e ->
  regex_new (bs_of st) e = inr (RFancy p n) ->
  valid_chars cs -> (N.of_nat (length (concat cs)) < usize_max)%N ->
  VmScope cs (bs_of st) e p.
Proof.
  intros Hv Hp Hc Hk Hn W Hl.
  destruct (parse_tree_ok re e st Hp) as (Hr & Hz & Hlz). pose proof (parse_wfe re e st Hv Hp) as Hw.
  unfold regex_new in Hn. destruct (acheck 0 (wrap e)) eqn:Ea; [discriminate|].
  destruct (hard (bs_of st) 1 e); [|discriminate].
  destruct (compile (bs_of st) (wrap e)) as [er|p0] eqn:Ec; [discriminate|]. inversion Hn; subst p0 n. clear Hn.
  split; [exact W|]. split; [exact Hl|]. split; [exact Ec|]. split; [|split; [|exact Hk]].
  - split; [cbn; tauto|]. split; [cbn; tauto|]. split; [exact Ea|]. cbn. split; [exact I|]. split; [|exact I].
    now apply rok_of.
  - cbn. split; [exact I|]. split; [|exact I]. exact Hr.
Qed.

(* find_iter over the compiled pattern: sorted, non-overlapping, valid spans; and - as long as the
   search does not give up - exactly the spans of the iteration over the reference search *)
Theorem pattern_find_iter :
  forall (re : list nat), valid_text re ->
  forall (e : expr) (st : pst), parse re = POk (e, st) ->
  condok true e -> kok true e ->
  forall (p : prog) (ng : nat), regex_new (bs_of st) e = inr (RFancy p ng) ->
  forall cs : list (list nat), valid_chars cs -> (N.of_nat (length (concat cs)) < usize_max)%N ->
  forall max_st limit fuelv,
  (forall pos f, vsearch cs p ng max_st limit fuelv pos f <> SErr EFuel) ->
  forall n,
  chain (concat cs) 0 (collect (concat cs) (vsearch cs p ng max_st limit fuelv) n m_init) /\
  (no_err (collect (concat cs) (vsearch cs p ng max_st limit fuelv) n m_init) ->
   spans (collect (concat cs) (vsearch cs p ng max_st limit fuelv) n m_init) =
   spans (collect (concat cs) (rsearch cs e) n m_init)).
Proof.
  intros re Hv e st Hp Hc Hk p ng Hn cs W Hl max_st limit fuelv Hnf n.
  destruct (pattern_vm_scope re e st p ng cs Hv Hp Hc Hk Hn W Hl) as (_ & _ & Ec & Ho & Hr & _).
  split.
  - eapply vm_find_iter_chain; eauto.
  - intros Hne. eapply vm_find_iter_is_reference; eauto. apply bst_init.
Qed.

(* ---------- termination of vm::run, from the pattern string ---------- *)
From FR Require Import Terminates.
Theorem pattern_vm_terminates :
  forall (re : list nat), valid_text re ->
  forall (e : expr) (st : pst), parse re = POk (e, st) ->
  condok true e ->
  forall (p : prog) (n : nat), regex_new (bs_of st) e = inr (RFancy p n) ->
  forall cs : list (list nat), valid_chars cs ->
  forall cx : ctx, c_text cx = concat cs -> (N.of_nat (length (concat cs)) < usize_max)%N ->
  bnd cs (c_pos cx) ->
  forall (max_st : nat) (lim : option N),
  exists n0, forall fuelv, n0 <= fuelv ->
  match fst (vm_run cx p max_st lim fuelv) with
  | RMatch _ | RNoMatch | RErrStack | RErrLimit => True
  | _ => False
  end.
Proof.
  intros re Hv e st Hp Hc p n Hn cs W cx Ht Hl Hb max_st lim.
  destruct (parse_tree_ok re e st Hp) as (Hr & Hz & Hlz). pose proof (parse_wfe re e st Hv Hp) as Hw.
  unfold regex_new in Hn. destruct (acheck 0 (wrap e)) eqn:Ea; [discriminate|].
  destruct (hard (bs_of st) 1 e); [|discriminate].
  destruct (compile (bs_of st) (wrap e)) as [er|p0] eqn:Ec; [discriminate|]. inversion Hn; subst p0 n. clear Hn.
  apply (vm_terminates cs W cx Ht Hl Hb (bs_of st) e p Ec).
  split; [cbn; tauto|]. split; [cbn; tauto|]. split; [exact Ea|]. cbn. split; [exact I|]. split; [|exact I].
  now apply rok_of.
Qed.

(* ---------- the iterators over a compiled pattern, with no assumption on the step budget ---------- *)
From FR Require Import ApiTotal.
Theorem pattern_api_total :
  forall (re : list nat), valid_text re ->
  forall (e : expr) (st : pst), parse re = POk (e, st) ->
  condok true e -> kok true e ->
  forall (p : prog) (ng : nat), regex_new (bs_of st) e = inr (RFancy p ng) ->
  forall cs : list (list nat), valid_chars cs -> (N.of_nat (length (concat cs)) < usize_max)%N ->
  forall max_st limit,
  exists n0, forall fuelv, n0 <= fuelv ->
  find_iter_ok cs e p ng max_st limit fuelv /\ split_ok cs p ng max_st limit fuelv /\ replacen_ok cs p ng max_st limit fuelv.
Proof.
  intros re Hv e st Hp Hc Hk p ng Hn cs W Hl max_st limit.
  exact (vm_api_total cs (bs_of st) e p (pattern_vm_scope re e st p ng cs Hv Hp Hc Hk Hn W Hl) ng max_st limit).
Qed.
