(* Prune.v — the algebra behind "handing a block to the automata engine is sound": a result list L'
   is a pruning of L when it is L with some elements deleted, each deleted element being
   equivalent to an element that occurs EARLIER in L.  The head of a pruned list is the head of the
   list; prunings compose under append and under bind with continuations that cannot tell
   equivalent states apart. *)
From Coq Require Import List Lia.
Import ListNotations.

Section Prune.
Variable T : Type.
Variable E : T -> T -> Prop.               (* equivalence of states *)
Hypothesis Erefl : forall a, E a a.
Hypothesis Esym : forall a b, E a b -> E b a.
Hypothesis Etrans : forall a b c, E a b -> E b c -> E a c.

(* [seen]: the elements of the full list that precede the part under consideration *)
Inductive prune_from : list T -> list T -> list T -> Prop :=
| pr_nil seen : prune_from seen [] []
| pr_keep seen x l' l : prune_from (x :: seen) l' l -> prune_from seen (x :: l') (x :: l)
| pr_drop seen y l' l : (exists a, In a seen /\ E a y) -> prune_from (y :: seen) l' l -> prune_from seen l' (y :: l).

Definition prune := prune_from [].

Lemma prune_refl : forall l seen, prune_from seen l l.
Proof. induction l; intros; constructor; auto. Qed.

Lemma prune_weaken : forall s l' l, prune_from s l' l -> forall s2, (forall a, In a s -> exists b, In b s2 /\ E b a) ->
  prune_from s2 l' l.
Proof.
  induction 1 as [s|s x l' l H IH|s y l' l (a & Ha & Ea) H IH]; intros s2 Hs.
  - constructor.
  - apply pr_keep. apply IH. intros a [Hx|Ha]; [subst a; exists x; split; [left; auto|auto]|].
    destruct (Hs a Ha) as (b & Hb & Eb). exists b. split; [right; auto|auto].
  - apply pr_drop.
    + destruct (Hs a Ha) as (b & Hb & Eb). exists b. split; auto. eapply Etrans; eauto.
    + apply IH. intros a0 [Hy|Ha0]; [subst a0; exists y; split; [left; auto|auto]|].
      destruct (Hs a0 Ha0) as (b & Hb & Eb). exists b. split; [right; auto|auto].
Qed.

Lemma prune_app : forall s a' a, prune_from s a' a -> forall b' b, prune_from (rev a ++ s) b' b ->
  prune_from s (a' ++ b') (a ++ b).
Proof.
  induction 1 as [s|s x l' l H IH|s y l' l Hy H IH]; intros b' b Hb; cbn [app rev] in *.
  - exact Hb.
  - apply pr_keep. apply IH. rewrite <- app_assoc in Hb. exact Hb.
  - apply pr_drop; auto. apply IH. rewrite <- app_assoc in Hb. exact Hb.
Qed.

(* every element has an equivalent among [seen]: everything may be dropped *)
Lemma prune_all_dropped : forall l s, (forall y, In y l -> exists a, In a s /\ E a y) -> prune_from s [] l.
Proof.
  induction l as [|y l IH]; intros s H; [constructor|]. apply pr_drop; [apply H; left; auto|].
  apply IH. intros z Hz. destruct (H z (or_intror Hz)) as (a & Ha & Ea). exists a. split; [right; auto|auto].
Qed.

Lemma prune_in : forall s l' l, prune_from s l' l -> forall x, In x l' -> In x l.
Proof. induction 1; intros z Hz; cbn in *; auto. destruct Hz as [<-|Hz]; auto. Qed.

(* the head *)
Definition hdrel (l' l : list T) : Prop := hd_error l' = hd_error l.

Lemma prune_hd l' l : prune l' l -> hdrel l' l.
Proof.
  unfold prune, hdrel. intros H. inversion H as [s|s x a b H1|s y a b (c & Hc & _) H1]; subst; auto. destruct Hc.
Qed.

Lemma Forall2_in_r (l1 l2 : list T) : Forall2 E l1 l2 -> forall z, In z l2 -> exists w, In w l1 /\ E w z.
Proof.
  induction 1 as [|a b l1 l2 Hab H IH]; intros z Hz; [destruct Hz|]. destruct Hz as [<-|Hz].
  - exists a. split; [left; auto|auto].
  - destruct (IH z Hz) as (w & Hw & Ew). exists w. split; [right; auto|auto].
Qed.

(* bind: a pruned list continued by pointwise-pruned continuations is a pruning, provided the
   original continuation cannot tell equivalent states apart *)
Section Bind.
Variables k' k : T -> list T.
Variable Q : T -> Prop.                       (* what is known of every element of L *)
Hypothesis Hk : forall x, Q x -> prune (k' x) (k x).
Hypothesis kpar : forall x y, E x y -> Forall2 E (k x) (k y).

Lemma prune_bind_gen : forall s L' L, prune_from s L' L -> Forall Q L -> forall S,
  (forall a, In a s -> forall w, In w (k a) -> exists b, In b S /\ E b w) ->
  prune_from S (flat_map k' L') (flat_map k L).
Proof.
  induction 1 as [s|s x l' l H IH|s y l' l (a & Ha & Ea) H IH]; intros HQ S HS; cbn [flat_map];
    try (apply Forall_cons_iff in HQ as [HQ1 HQ]).
  - constructor.
  - apply prune_app.
    + eapply prune_weaken; [apply Hk; exact HQ1|]. intros a0 [].
    + apply IH; [exact HQ|]. intros a [<-|Ha] w Hw.
      * exists w. split; [apply in_or_app; left; now apply -> in_rev|auto].
      * destruct (HS a Ha w Hw) as (b & Hb & Eb). exists b. split; [apply in_or_app; right; auto|auto].
  - change (flat_map k' l') with ([] ++ flat_map k' l'). apply prune_app.
    + apply prune_all_dropped. intros z Hz.
      destruct (Forall2_in_r _ _ (kpar a y Ea) z Hz) as (w & Hw & Ew).
      destruct (HS a Ha w Hw) as (b & Hb & Eb). exists b. split; auto. eapply Etrans; eauto.
    + apply IH; [exact HQ|]. intros a0 [<-|Ha0] w Hw.
      * exists w. split; [apply in_or_app; left; now apply -> in_rev|auto].
      * destruct (HS a0 Ha0 w Hw) as (b & Hb & Eb). exists b. split; [apply in_or_app; right; auto|auto].
Qed.

Lemma prune_bind L' L : prune L' L -> Forall Q L -> prune (flat_map k' L') (flat_map k L).
Proof. intros H HQ. eapply prune_bind_gen; [exact H|exact HQ|]. intros a []. Qed.
End Bind.

(* a pruned list followed by something of which only the first result matters *)
Section Tail.
Variables k' k : T -> list T.
Variable Q : T -> Prop.
Hypothesis Hk : forall x, Q x -> hdrel (k' x) (k x).
Hypothesis kresp : forall x y, E x y -> k x = [] -> k y = [].

Lemma hd_bind_tail_gen : forall s L' L, prune_from s L' L -> Forall Q L -> (forall a, In a s -> k a = []) ->
  hdrel (flat_map k' L') (flat_map k L).
Proof.
  unfold hdrel in *. induction 1 as [s|s x l' l H IH|s y l' l (a & Ha & Ea) H IH]; intros HQ Hs; cbn [flat_map];
    try (apply Forall_cons_iff in HQ as [HQ1 HQ]).
  - reflexivity.
  - specialize (Hk x HQ1). destruct (k x) as [|w r] eqn:Ekx.
    + destruct (k' x) as [|w' r']; [|discriminate]. cbn [app]. apply IH; [exact HQ|]. intros a [<-|Ha]; auto.
    + destruct (k' x) as [|w' r']; [discriminate|]. cbn [app hd_error] in *. exact Hk.
  - rewrite (kresp a y Ea (Hs a Ha)). cbn [app]. apply IH; [exact HQ|]. intros a0 [<-|Ha0]; auto. exact (kresp a y Ea (Hs a Ha)).
Qed.

Lemma hd_bind_tail L' L : prune L' L -> Forall Q L -> hdrel (flat_map k' L') (flat_map k L).
Proof. intros H HQ. eapply hd_bind_tail_gen; [exact H|exact HQ|]. intros a []. Qed.
End Tail.

(* a block all of whose results are equivalent may be cut to its first *)
Lemma prune_first l : (forall x y, In x l -> In y l -> E x y) -> prune (firstn 1 l) l.
Proof.
  destruct l as [|x l]; intros H; [constructor|]. cbn [firstn]. apply pr_keep.
  apply prune_all_dropped. intros y Hy. exists x. split; [left; auto|]. apply H; [left; auto|right; auto].
Qed.

Lemma hdrel_firstn1 l : hdrel (firstn 1 l) l.
Proof. destruct l; reflexivity. Qed.

Lemma hdrel_app a' a b' b : hdrel a' a -> hdrel b' b -> hdrel (a' ++ b') (a ++ b).
Proof. unfold hdrel. destruct a', a; cbn; intros H1 H2; auto; discriminate. Qed.

Lemma hdrel_map (f : T -> T) l' l : hdrel l' l -> hdrel (map f l') (map f l).
Proof. unfold hdrel. destruct l', l; cbn; intros H; auto; try discriminate. inversion H; reflexivity. Qed.

Lemma prune_map (f : T -> T) : (forall x y, E x y -> E (f x) (f y)) ->
  forall s l' l, prune_from s l' l -> prune_from (map f s) (map f l') (map f l).
Proof.
  intros Hf. induction 1 as [s|s x l' l H IH|s y l' l (a & Ha & Ea) H IH]; cbn [map].
  - constructor.
  - apply pr_keep. exact IH.
  - apply pr_drop; [|exact IH]. exists (f a). split; [now apply in_map|now apply Hf].
Qed.

End Prune.
