(* EscapeSem.v — what the tree of an escaped string matches under the reference semantics:
   the chain of one-character literals that parse (escape s) returns (EscapeParse.v) matches at a
   position exactly when the text contains the bytes of s there, consumes exactly |s| bytes and
   touches no capture slot; and the unanchored search for it reports the first character
   position, from the start offset on, at which the text contains s - what str::find returns. *)
From FR Require Import Base Utf8 Ast Analyze Sem ExprLemmas Escape Parse Utf8Facts Chars EscapeParse.
From Coq Require Import Lia NArith.

Section ES.
Variable cx : ctx.
Notation t := (c_text cx).

Lemma lit_at_le v : forall ix, lit_at t ix v = true -> ix + length v <= length t.
Proof.
  induction v as [|c r IH]; intros ix H; cbn [lit_at length] in *.
  - apply Nat.leb_le in H. lia.
  - destruct (nth_error t ix) as [b|] eqn:E; [|discriminate]. apply andb_prop in H as [_ H].
    apply IH in H. lia.
Qed.

Lemma lit_at_app a : forall b ix, lit_at t ix (a ++ b) = lit_at t ix a && lit_at t (ix + length a) b.
Proof.
  induction a as [|c r IH]; intros b ix; cbn [app lit_at length].
  - rewrite Nat.add_0_r. destruct (lit_at t ix b) eqn:E; [|now rewrite andb_false_r].
    apply lit_at_le in E. replace (ix <=? length t) with true by (symmetry; apply Nat.leb_le; lia). reflexivity.
  - destruct (nth_error t ix) as [x|]; [|reflexivity]. rewrite IH. rewrite <- andb_assoc.
    replace (ix + S (length r)) with (S ix + length r) by lia. reflexivity.
Qed.

(* the Concat fold of Sem over a list of literal nodes *)
Definition cgo (fuel : nat) := fix go (g : nat) (l : list expr) (st : sst) {struct l} : list sst :=
  match l with
  | [] => [st]
  | x :: r => flat_map (go (g + ngroups x) r) (sem cx x fuel g st)
  end.

Lemma lits_go fuel cs : forall g ix caps, (cs = [] -> ix <= length t) ->
  cgo fuel g (map lit cs) (ix, caps) =
  if lit_at t ix (concat cs) then [(ix + length (concat cs), caps)] else [].
Proof.
  induction cs as [|c cs IH]; intros g ix caps Hb; cbn [map concat cgo].
  - cbn [lit_at length]. replace (ix <=? length t) with true by (symmetry; apply Nat.leb_le; auto).
    now rewrite Nat.add_0_r.
  - rewrite lit_at_app. cbn [lit sem]. destruct (lit_at t ix c) eqn:Ec; cbn [flat_map andb]; [|reflexivity].
    rewrite app_nil_r. fold (cgo fuel). rewrite IH by (intros _; now apply lit_at_le).
    rewrite app_length, Nat.add_assoc. reflexivity.
Qed.

(* embedded in a larger concatenation the chain still behaves as ONE literal: whatever precedes it
   hands over its results, each is continued exactly when the text contains s there, by |s| bytes,
   with the captures untouched and the group numbering of what follows unshifted *)
Lemma lits_go_app fuel cs post : forall g ix caps, (cs = [] -> ix <= length t) ->
  cgo fuel g (map lit cs ++ post) (ix, caps) =
  if lit_at t ix (concat cs) then cgo fuel g post (ix + length (concat cs), caps) else [].
Proof.
  induction cs as [|c cs IH]; intros g ix caps Hb; cbn [map concat app].
  - cbn [lit_at length]. replace (ix <=? length t) with true by (symmetry; apply Nat.leb_le; auto).
    now rewrite Nat.add_0_r.
  - cbn [cgo]. rewrite lit_at_app. cbn [lit sem]. destruct (lit_at t ix c) eqn:Ec; cbn [flat_map andb]; [|reflexivity].
    rewrite app_nil_r. fold (cgo fuel). cbn [ngroups]. rewrite Nat.add_0_r.
    rewrite IH by (intros _; now apply lit_at_le). rewrite app_length, Nat.add_assoc. reflexivity.
Qed.

Lemma cgo_app fuel a : forall b g st, cgo fuel g (a ++ b) st = flat_map (cgo fuel (g + ngroups_list a) b) (cgo fuel g a st).
Proof.
  induction a as [|x a IH]; intros b g st; cbn [app cgo].
  - unfold ngroups_list. cbn [fold_right flat_map]. now rewrite Nat.add_0_r, app_nil_r.
  - fold (cgo fuel).
    replace (g + ngroups_list (x :: a)) with (g + ngroups x + ngroups_list a) by (unfold ngroups_list; cbn [fold_right]; lia).
    induction (sem cx x fuel g st) as [|s1 l IHl]; cbn [flat_map]; [reflexivity|].
    rewrite flat_map_app, IHl, IH. reflexivity.
Qed.

Theorem sem_embedded fuel pre cs post g st : cs <> [] ->
  sem cx (Concat (pre ++ map lit cs ++ post)) fuel g st =
  flat_map (fun s1 => if lit_at t (fst s1) (concat cs)
                      then cgo fuel (g + ngroups_list pre) post (fst s1 + length (concat cs), snd s1) else [])
           (cgo fuel g pre st).
Proof.
  intros Hne. destruct st as [ix0 caps0]. change (sem cx (Concat (pre ++ map lit cs ++ post)) fuel g (ix0, caps0)) with (cgo fuel g (pre ++ map lit cs ++ post) (ix0, caps0)).
  rewrite cgo_app. apply flat_map_ext. intros [ix caps]. cbn [fst snd]. apply lits_go_app. intros E. now destruct Hne.
Qed.

Theorem sem_lits fuel cs g ix caps : (cs = [] -> ix <= length t) ->
  sem cx (finish (map lit cs)) fuel g (ix, caps) =
  if lit_at t ix (concat cs) then [(ix + length (concat cs), caps)] else [].
Proof.
  intros Hb. destruct cs as [|c [|c2 cs]].
  - cbn [map finish sem concat lit_at length]. replace (ix <=? length t) with true by (symmetry; apply Nat.leb_le; auto).
    now rewrite Nat.add_0_r.
  - cbn [map finish concat]. rewrite app_nil_r. reflexivity.
  - change (finish (map lit (c :: c2 :: cs))) with (Concat (map lit (c :: c2 :: cs))).
    exact (lits_go fuel (c :: c2 :: cs) g ix caps Hb).
Qed.

(* ---------- the unanchored search ---------- *)
(* the character positions the lazy (?s:.)*? prefix of the wrapped pattern visits, in order *)
Fixpoint walk (fuel ix : nat) : list nat :=
  match fuel with
  | 0 => []
  | S f => ix :: match nth_error t ix with Some b => walk f (ix + cp_len b) | None => [] end
  end.

Lemma cp_len_pos b : 1 <= cp_len b.
Proof. unfold cp_len. repeat destruct (_ <? _); lia. Qed.

Lemma dotstar_walk fuel0 g : forall fuel ix caps,
  rep_opt_u (sem cx (Any true) fuel0 g) false fuel (ix, caps) = map (fun j => (j, caps)) (walk fuel ix).
Proof.
  induction fuel as [|f IH]; intros ix caps; cbn [rep_opt_u walk map]; [reflexivity|].
  f_equal. cbn [sem]. destruct (nth_error t ix) as [b|]; cbn [orb flat_map map]; [|reflexivity].
  cbn [fst]. pose proof (cp_len_pos b). destruct (Nat.eqb_spec (ix + cp_len b) ix); [lia|].
  rewrite app_nil_r. apply IH.
Qed.

Lemma flat_map_single {A} (l : list A) : flat_map (fun s => [s]) l = l.
Proof. induction l as [|x l IH]; cbn; [reflexivity|now rewrite IH]. Qed.

Lemma sem_concat2 a b fuel g st : sem cx (Concat [a; b]) fuel g st =
  flat_map (fun s => flat_map (fun s' => [s']) (sem cx b fuel (g + ngroups a) s)) (sem cx a fuel g st).
Proof. destruct st; reflexivity. Qed.
Lemma sem_dotstar fuel g st : sem cx (Repeat (Any true) 0 usize_max false) fuel g st =
  rep_opt_u (sem cx (Any true) fuel g) false fuel st ++ [].
Proof. destruct st; reflexivity. Qed.

Lemma sem_wrap e fuel caps : sem cx (wrap e) fuel 0 (c_pos cx, caps) =
  flat_map (fun j => sem cx (Group e) fuel 0 (j, caps)) (walk fuel (c_pos cx)).
Proof.
  unfold wrap. rewrite sem_concat2, sem_dotstar, app_nil_r, dotstar_walk.
  rewrite flat_map_concat_map, map_map, <- flat_map_concat_map.
  apply flat_map_ext. intros j. apply flat_map_single.
Qed.

Lemma hd_flat_map_find {A B} (f : A -> list B) (p : A -> bool) (r : A -> B) l :
  (forall j, In j l -> f j = if p j then [r j] else []) ->
  hd_error (flat_map f l) = option_map r (find p l).
Proof.
  induction l as [|x l IH]; intros H; cbn [flat_map find]; [reflexivity|].
  rewrite (H x (or_introl eq_refl)). destruct (p x); cbn; [reflexivity|].
  apply IH. intros j Hj. apply H. now right.
Qed.

Lemma search_list_hd e fuel : search_list cx e fuel =
  option_map (fun s => end_fix (snd s)) (hd_error (sem cx (wrap e) fuel 0 (c_pos cx, init_caps (S (ngroups e))))).
Proof. unfold search_list. destruct (sem cx (wrap e) fuel 0 _); reflexivity. Qed.

Lemma ngroups_lits cs : ngroups (finish (map lit cs)) = 0.
Proof.
  destruct cs as [|c [|c2 cs]]; try reflexivity.
  change (finish (map lit (c :: c2 :: cs))) with (Concat (map lit (c :: c2 :: cs))). rewrite ngroups_concat.
  unfold ngroups_list. induction (c :: c2 :: cs) as [|x l IH]; cbn; auto.
Qed.

(* str::find on the reference semantics: the first character position from the offset on where
   the text contains s; group 0 is exactly that occurrence *)
Theorem lits_search cs fuel : c_pos cx <= length t -> 1 <= fuel ->
  search_list cx (finish (map lit cs)) fuel =
  option_map (fun j => [V j; V (j + length (concat cs))])
             (find (fun j => lit_at t j (concat cs)) (walk fuel (c_pos cx))).
Proof.
  intros Hpos Hf. rewrite search_list_hd, sem_wrap, ngroups_lits.
  change (init_caps 1) with [MAXV; MAXV].
  set (res := fun j : nat => ((j + length (concat cs), [V j; V (j + length (concat cs))]) : sst)).
  assert (Hg : forall j, (cs = [] -> j <= length t) ->
     sem cx (Group (finish (map lit cs))) fuel 0 (j, [MAXV; MAXV]) =
     if lit_at t j (concat cs) then [res j] else []).
  { intros j Hj. cbn [sem]. rewrite sem_lits by exact Hj. destruct (lit_at t j (concat cs)); reflexivity. }
  destruct cs as [|c cs].
  - destruct fuel as [|f]; [lia|]. cbn [walk flat_map find concat]. rewrite Hg by (intros _; exact Hpos).
    cbn [concat lit_at]. replace (c_pos cx <=? length t) with true by (symmetry; apply Nat.leb_le; exact Hpos).
    unfold res. cbn [app hd_error option_map snd concat length]. unfold end_fix. cbn [getcap nth_error].
    rewrite Nat.add_0_r, Nat.ltb_irrefl. reflexivity.
  - rewrite (hd_flat_map_find _ (fun j => lit_at t j (concat (c :: cs))) res).
    2:{ intros j _. apply Hg. discriminate. }
    destruct (find _ _) as [j|]; [|reflexivity]. unfold res. cbn [option_map snd]. unfold end_fix. cbn [getcap nth_error].
    destruct (Nat.ltb_spec (j + length (concat (c :: cs))) j); [lia|reflexivity].
Qed.

(* the visited positions start at the offset, increase strictly, and step by whole characters *)
Lemma walk_ge fuel : forall ix j, In j (walk fuel ix) -> ix <= j.
Proof.
  induction fuel as [|f IH]; intros ix j H; cbn [walk] in H; [destruct H|].
  destruct H as [->|H]; [lia|]. destruct (nth_error t ix) as [b|]; [|destruct H].
  apply IH in H. lia.
Qed.
End ES.

(* from the escaped STRING: searching for escape(s) finds the first occurrence of s *)
Theorem escape_search cx s fuel : valid_text s -> c_pos cx <= length (c_text cx) -> 1 <= fuel ->
  exists e st, parse (fst (escape s)) = POk (e, st) /\
    search_list cx e fuel =
    option_map (fun j => [V j; V (j + length s)])
               (find (fun j => lit_at (c_text cx) j s) (walk cx fuel (c_pos cx))).
Proof.
  intros Hv Hp Hf. destruct (parse_escape_is_literals s Hv) as (cs & -> & Hc & Hparse).
  exists (finish (map lit cs)), pst0. split; [exact Hparse|]. now apply lits_search.
Qed.

(* ---------- on valid UTF-8 text the visited positions are exactly the character boundaries ---------- *)
Section Walk.
Variable cs0 : list (list nat).
Hypothesis W0 : valid_chars cs0.
Variable cx : ctx.
Hypothesis Ht : c_text cx = concat cs0.

Lemma walk_complete : forall fuel ix j, bnd cs0 ix -> bnd cs0 j -> ix <= j -> j - ix < fuel -> In j (walk cx fuel ix).
Proof.
  induction fuel as [|f IH]; intros ix j Bi Bj Hle Hf; [lia|]. cbn [walk].
  destruct (Nat.eq_dec j ix) as [->|Hne]; [now left|]. right.
  pose proof (bnd_le _ _ Bj) as Hj. rewrite <- Ht in Hj.
  destruct (nth_error (c_text cx) ix) as [b|] eqn:E; [|apply nth_error_None in E; lia].
  assert (Hge : ix + cp_len b <= j).
  { destruct (Nat.le_gt_cases (ix + cp_len b) j); [assumption|]. exfalso.
    rewrite Ht in E. exact (no_bnd_inside cs0 W0 ix b j Bi E ltac:(lia) Bj). }
  apply IH; [|assumption|assumption|pose proof (cp_len_pos b); lia].
  rewrite Ht in E. assert (Hlt : ix < length (concat cs0)) by (apply nth_error_Some; congruence).
  destruct (step_fwd cs0 ix W0 Bi Hlt) as (b' & E' & _ & B'). rewrite E in E'. inversion E'; subst. exact B'.
Qed.

(* an occurrence of a non-empty valid string starts at a character boundary *)
Lemma occurrence_is_boundary s j : valid_text s -> s <> [] -> lit_at (c_text cx) j s = true -> bnd cs0 j.
Proof.
  intros (cs & Hv & ->) Hne H. apply (is_boundary_bnd cs0 W0). rewrite <- Ht.
  destruct cs as [|c cs]; [now destruct Hne|]. inversion Hv as [|? ? Wc _]; subst.
  destruct c as [|b r]; [destruct Wc|]. destruct Wc as (Hb & _). cbn [concat app lit_at] in H.
  destruct (nth_error (c_text cx) j) as [x|] eqn:E; [|discriminate]. apply andb_prop in H as [Hx _].
  apply Nat.eqb_eq in Hx. subst x. unfold is_boundary.
  assert (j < length (c_text cx)) by (apply nth_error_Some; congruence).
  destruct (Nat.eqb_spec j (length (c_text cx))); [lia|]. rewrite E, Hb. reflexivity.
Qed.

Lemma find_first {A} (p : A -> bool) l x : find p l = Some x ->
  exists l1 l2, l = l1 ++ x :: l2 /\ forall k, In k l1 -> p k = false.
Proof.
  induction l as [|y l IH]; cbn [find]; [discriminate|]. destruct (p y) eqn:Ey.
  - intros H. inversion H; subst. exists [], l. split; [reflexivity|]. intros k [].
  - intros H. destruct (IH H) as (l1 & l2 & -> & Hn). exists (y :: l1), l2. split; [reflexivity|].
    intros k [<-|Hk]; auto.
Qed.

Lemma walk_sorted : forall fuel ix l1 j l2, walk cx fuel ix = l1 ++ j :: l2 -> forall k, In k l2 -> j < k.
Proof.
  induction fuel as [|f IH]; intros ix l1 j l2 Hw k Hk; cbn [walk] in Hw; [destruct l1; discriminate|].
  destruct l1 as [|x l1]; cbn [app] in Hw; inversion Hw as [[Hx Hw']].
  - subst. destruct (nth_error (c_text cx) j) as [b|]; [|destruct Hk].
    apply (walk_ge cx) in Hk. pose proof (cp_len_pos b). lia.
  - subst x. destruct (nth_error (c_text cx) ix) as [b|]; [|destruct l1; discriminate]. eapply IH; eauto.
Qed.

(* str::find: the search for escape(s) reports the FIRST byte position >= offset at which the
   text contains s (bytewise), and None iff there is none *)
Theorem escape_is_find s : valid_text s -> s <> [] -> bnd cs0 (c_pos cx) ->
  exists e st, parse (fst (escape s)) = POk (e, st) /\
  match search_list cx e (S (length (c_text cx))) with
  | Some caps => exists j, caps = [V j; V (j + length s)] /\ c_pos cx <= j /\ lit_at (c_text cx) j s = true /\
                           forall j', c_pos cx <= j' < j -> lit_at (c_text cx) j' s = false
  | None => forall j', c_pos cx <= j' -> lit_at (c_text cx) j' s = false
  end.
Proof.
  intros Hv Hne Bp.
  assert (Hpos : c_pos cx <= length (c_text cx)) by (rewrite Ht; now apply bnd_le).
  destruct (escape_search cx s (S (length (c_text cx))) Hv Hpos ltac:(lia)) as (e & st & Hp & Hs).
  exists e, st. split; [exact Hp|]. rewrite Hs. clear Hs.
  set (p := fun j => lit_at (c_text cx) j s).
  assert (Hall : forall j', c_pos cx <= j' -> p j' = true -> In j' (walk cx (S (length (c_text cx))) (c_pos cx))).
  { intros j' Hle Hj'. pose proof (occurrence_is_boundary s j' Hv Hne Hj') as Bj.
    apply walk_complete; auto. pose proof (bnd_le _ _ Bj). rewrite <- Ht in *. lia. }
  destruct (find p _) as [j|] eqn:Ef; cbn [option_map].
  - exists j. split; [reflexivity|]. pose proof (find_some _ _ Ef) as [Hin Hj]. split; [now apply (walk_ge cx) in Hin|].
    split; [exact Hj|]. intros j' [Hlo Hhi]. destruct (p j') eqn:Ej'; [|exact Ej']. exfalso.
    pose proof (Hall j' Hlo Ej') as Hin'.
    destruct (find_first _ _ _ Ef) as (l1 & l2 & Hw & Hnot).
    rewrite Hw in Hin'. apply in_app_or in Hin' as [Hin'|[->|Hin']].
    + rewrite (Hnot j' Hin') in Ej'. discriminate.
    + lia.
    + pose proof (walk_sorted _ _ _ _ _ Hw j' Hin'). lia.
  - intros j' Hlo. destruct (p j') eqn:Ej'; [|exact Ej']. exfalso.
    exact (eq_true_false_abs _ Ej' (find_none _ _ Ef j' (Hall j' Hlo Ej'))).
Qed.
End Walk.
