(* KeepOut.v — where the reported match start can lie.  \K writes slot 0; the wrap group writes
   it on entry.  Outside a look-behind every offset the reference semantics visits is at or after
   the search start, so slot 0 is; inside a look-behind the offset can be earlier, and a \K there
   moves the start before the search start (known finding F-keepout-lb).  For patterns with no \K
   under a look-behind ([kok true]) the start of every result of the reference search is at or
   after the search start: the clause of SearchOK that the API layer (ApiProofs.v) relies on. *)
From FR Require Import Base Utf8 Utf8Facts Chars Ast Analyze Sem ExprLemmas SemSound Param Scope.
From Coq Require Import Lia NArith.


(* [b = true]: not under a look-behind *)
Fixpoint kok (b : bool) (e : expr) : Prop :=
  match e with
  | KeepOut => b = true
  | LookAround c la => kok (b && negb (is_behind_k la)) c
  | Concat es | Alt es => (fix go (l : list expr) : Prop := match l with [] => True | x :: r => kok b x /\ go r end) es
  | Group c | Repeat c _ _ _ | AtomicGroup c => kok b c
  | Conditional c y n => kok b c /\ kok b y /\ kok b n
  | _ => True
  end.
Fixpoint kok_list (b : bool) (l : list expr) : Prop := match l with [] => True | x :: r => kok b x /\ kok_list b r end.
Lemma kok_concat b es : kok b (Concat es) = kok_list b es. Proof. induction es; simpl in *; congruence. Qed.
Lemma kok_alt b es : kok b (Alt es) = kok_list b es. Proof. induction es; simpl in *; congruence. Qed.
Lemma kok_alts b e : kok b e -> kok_list b (alts_of e).
Proof. destruct e; cbn [alts_of kok_list]; auto. rewrite kok_alt. auto. Qed.
Lemma kok_list_in b l x : kok_list b l -> In x l -> kok b x.
Proof. induction l as [|y r IH]; intros H Hx; [destruct Hx|]. destruct H as [H1 H2]. destruct Hx as [<-|Hx]; auto. Qed.
Lemma wfe_list_in l x : wfe_list l -> In x l -> wfe x.
Proof. induction l as [|y r IH]; intros H Hx; [destruct Hx|]. destruct H as [H1 H2]. destruct Hx as [<-|Hx]; auto. Qed.

Lemma kokb_ok : forall e b, kokb b e = true -> kok b e.
Proof.
  induction e using expr_ind'; intros b Hb; cbn [kokb] in Hb; try exact I; try (cbn [kok]; auto; fail).
  - rewrite kok_concat. induction H as [|x r Hx Hr IH]; [exact I|].
    apply andb_true_iff in Hb as [H1 H2]. split; auto.
  - rewrite kok_alt. induction H as [|x r Hx Hr IH]; [exact I|].
    apply andb_true_iff in Hb as [H1 H2]. split; auto.
  - apply andb_true_iff in Hb as [Hb H3]. apply andb_true_iff in Hb as [H1 H2]. cbn [kok]. auto.
Qed.

Lemma getcap_upd_other caps i j v : i <> j -> getcap (upd caps i v) j = getcap caps j.
Proof.
  unfold getcap. revert i j. induction caps as [|x r IH]; intros i j H; destruct i, j; cbn; auto; try lia.
Qed.
Lemma getcap_upd_same caps i v : getcap (upd caps i v) i = v \/ getcap (upd caps i v) i = MAXV.
Proof.
  unfold getcap. revert i. induction caps as [|x r IH]; intros i; destruct i; cbn; auto.
Qed.

(* invariants of the three repetition combinators *)
Section RepInv.
Variable P : sst -> Prop.
Variable body : sst -> list sst.
Hypothesis Hbody : forall s s', P s -> In s' (body s) -> P s'.
Lemma rep_must_inv : forall k s s', P s -> In s' (rep_must body k s) -> P s'.
Proof.
  induction k as [|k IH]; intros s s' Hs Hin; cbn [rep_must] in Hin.
  - destruct Hin as [<-|[]]; auto.
  - apply in_flat_map in Hin. destruct Hin as (s1 & H1 & H2). eauto.
Qed.
Lemma rep_opt_b_inv greedy : forall m s s', P s -> In s' (rep_opt_b body greedy m s) -> P s'.
Proof.
  induction m as [|m IH]; intros s s' Hs Hin; cbn [rep_opt_b] in Hin.
  - destruct Hin as [<-|[]]; auto.
  - assert (Hcase : s' = s \/ In s' (flat_map (rep_opt_b body greedy m) (body s))).
    { destruct greedy; [apply in_app_or in Hin; destruct Hin as [H|[H|[]]]; auto|destruct Hin; auto]. }
    destruct Hcase as [->|Hin']; auto.
    apply in_flat_map in Hin'. destruct Hin' as (s1 & H1 & H2). eauto.
Qed.
Lemma rep_opt_u_inv greedy : forall fuel s s', P s -> In s' (rep_opt_u body greedy fuel s) -> P s'.
Proof.
  induction fuel as [|f IH]; intros s s' Hs Hin; cbn [rep_opt_u] in Hin; [destruct Hin|].
  set (more := flat_map (fun s1 => if fst s1 =? fst s then [] else rep_opt_u body greedy f s1) (body s)) in *.
  assert (Hcase : s' = s \/ In s' more).
  { destruct greedy; [apply in_app_or in Hin; destruct Hin as [H|[H|[]]]; auto|destruct Hin; auto]. }
  destruct Hcase as [->|Hin']; auto.
  unfold more in Hin'. apply in_flat_map in Hin'. destruct Hin' as (s1 & H1 & H2).
  destruct (fst s1 =? fst s); [destruct H2|]. eauto.
Qed.
End RepInv.

Section K.
Variable cs : list (list nat).
Hypothesis W : valid_chars cs.
Variable cx : ctx.
Hypothesis Htext : c_text cx = concat cs.
Hypothesis Hlen : (N.of_nat (length (concat cs)) < usize_max)%N.
Variable p : nat.

Notation st_ok := (st_ok cs).

Definition s0ok (caps : list val) : Prop := match getcap caps 0 with V a => p <= a | MAXV => True end.
Definition Inv (b : bool) (st : sst) : Prop := st_ok st /\ s0ok (snd st) /\ (b = true -> p <= fst st).

Definition KS (e : expr) : Prop :=
  forall b, kok b e -> wfe e -> forall fuel g st st', 1 <= g -> Inv b st -> In st' (sem cx e fuel g st) -> Inv b st'.

Lemma inv_of b e st st' fuel g : wfe e -> Inv b st -> In st' (sem cx e fuel g st) -> s0ok (snd st') -> Inv b st'.
Proof.
  intros Hw (Hs & H0 & Hp) Hin H0'. destruct (sem_sound cs W cx Htext Hlen e Hw fuel g st st' Hs Hin) as (n & [Hs' D] & _).
  split; [exact Hs'|]. split; [exact H0'|]. intros Hb. specialize (Hp Hb).
  destruct (dist_bnd cs W _ _ _ D) as (_ & _ & Hle). lia.
Qed.

Lemma s0ok_upd caps i v : i <> 0 -> s0ok caps -> s0ok (upd caps i v).
Proof. intros Hi H. unfold s0ok. rewrite getcap_upd_other by auto. exact H. Qed.
Lemma s0ok_upd0 caps ix : p <= ix -> s0ok (upd caps 0 (V ix)).
Proof. intros H. unfold s0ok. destruct (getcap_upd_same caps 0 (V ix)) as [->| ->]; auto. Qed.


(* the look-behind lemmas of SemSound.v, keeping track of the group offset *)
Lemma lookbehind_found_g e fuel g0 ix caps s' :
  let try_alt := fun (a : expr) (ga : nat) =>
        first_some (fun j => first_ending (sem cx a fuel ga (j, caps)) ix) (backs cx ix ix) in
  match e with
  | Alt es =>
      (fix go (g : nat) (l : list expr) : option sst :=
         match l with
         | [] => None
         | x :: r => match try_alt x g with Some s => Some s | None => go (g + ngroups x) r end
         end) g0 es
  | _ => try_alt e g0
  end = Some s' ->
  exists a ga j, g0 <= ga /\ In a (alts_of e) /\ In j (backs cx ix ix) /\ In s' (sem cx a fuel ga (j, caps)).
Proof.
  intros try_alt.
  assert (Ht : forall a ga, try_alt a ga = Some s' ->
                exists j, In j (backs cx ix ix) /\ In s' (sem cx a fuel ga (j, caps))).
  { intros a ga. unfold try_alt. apply try_alt_found. }
  destruct e; try (intros H; destruct (Ht _ _ H) as (j & Hj & Hs'); eexists _, g0, j; split; [lia|split; [left; reflexivity|split; eauto]]).
  cbn [alts_of]. assert (Hgen : forall g1, g0 <= g1 ->
    (fix go (g : nat) (l : list expr) : option sst :=
         match l with
         | [] => None
         | x :: r => match try_alt x g with Some s => Some s | None => go (g + ngroups x) r end
         end) g1 es = Some s' ->
    exists a ga j, g0 <= ga /\ In a es /\ In j (backs cx ix ix) /\ In s' (sem cx a fuel ga (j, caps))).
  { induction es as [|x r IH]; intros g1 Hg1 H; [discriminate|].
    destruct (try_alt x g1) eqn:E.
    - inversion H; subst. destruct (Ht _ _ E) as (j & Hj & Hs'). exists x, g1, j. split; [lia|split; [left; auto|split; auto]].
    - destruct (IH (g1 + ngroups x) ltac:(lia) H) as (a & ga & j & Hga & Ha & Hj & Hs'). exists a, ga, j. split; [lia|split; [right; auto|split; auto]]. }
  apply Hgen. lia.
Qed.

Lemma split_in_g fuel ix caps : forall es g st',
  In st' ((fix go (g : nat) (l : list expr) : list sst :=
             match l with
             | [] => []
             | x :: r =>
                 match first_some (fun j => first_ending (sem cx x fuel g (j, caps)) ix) (backs cx ix ix) with
                 | Some s => [(ix, snd s)]
                 | None => []
                 end ++ go (g + ngroups x) r
             end) g es) ->
  exists x gx s, g <= gx /\ In x es /\
    first_some (fun j => first_ending (sem cx x fuel gx (j, caps)) ix) (backs cx ix ix) = Some s /\
    st' = (ix, snd s).
Proof.
  induction es as [|x r IH]; intros g st' H; [destruct H|]. apply in_app_or in H. destruct H as [H|H].
  - destruct (first_some _ _) as [s|] eqn:E; [|destruct H]. destruct H as [<-|[]].
    exists x, g, s. split; [lia|split; [left; auto|split; auto]].
  - destruct (IH _ _ H) as (y & gy & s & Hg & Hy & Hf & ->). exists y, gy, s. split; [lia|split; [right; auto|split; auto]].
Qed.

Ltac same_caps Hin := 
  repeat match type of Hin with
         | In _ (match ?x with _ => _ end) => destruct x
         | In _ (if ?x then _ else _) => destruct x
         | In _ [] => destruct Hin
         | In _ [_] => destruct Hin as [<-|[]]
         end.

Lemma keep_aux : forall e, KS e /\ Forall KS (alts_of e).
Proof.
  induction e using expr_ind'.
  all: try match goal with |- KS ?e /\ Forall KS (alts_of ?e) =>
         lazymatch e with Alt _ => fail | _ =>
           assert (H1 : KS e); [|split; [exact H1|constructor; [exact H1|constructor]]] end end.
  all: try (intros b Hk Hw fuel g0 [ix caps] st' Hg HI Hin; eapply inv_of; eauto;
            cbn [sem] in Hin; same_caps Hin; cbn [snd]; apply HI; fail).
  - (* Concat *) intros b Hk Hw fuel g0 st st' Hg HI Hin.
    rewrite sem_concat_eq in Hin. rewrite wfe_concat in Hw. rewrite kok_concat in Hk.
    revert g0 st Hg HI Hin. induction H as [|x r [Hx _] Hr IH]; intros g0 st Hg HI Hin; cbn [sem_cat] in Hin.
    + destruct Hin as [<-|[]]; auto.
    + destruct Hk as [K1 K2]. destruct Hw as [W1 W2]. apply in_flat_map in Hin. destruct Hin as (s1 & H1 & H2).
      eapply (IH K2 W2 (g0 + ngroups x) s1); eauto; try lia.
  - (* Alt *)
    assert (Hall : Forall KS es) by (eapply Forall_impl; [|exact H]; intros a [Ha _]; exact Ha).
    split; [|exact Hall]. intros b Hk Hw fuel g0 st st' Hg HI Hin.
    rewrite sem_alt_eq in Hin. rewrite wfe_alt in Hw. rewrite kok_alt in Hk.
    clear H. revert g0 Hg Hin. induction Hall as [|x r Hx Hr IH]; intros g0 Hg Hin; cbn [sem_alts] in Hin; [destruct Hin|].
    destruct Hk as [K1 K2]. destruct Hw as [W1 W2]. apply in_app_or in Hin. destruct Hin as [Hi1|Hi2].
    + eapply Hx; eauto.
    + eapply (IH K2 W2 (g0 + ngroups x)); eauto. lia.
  - (* Group *) destruct IHe as [IHe _]. intros b Hk Hw fuel g0 [ix caps] st' Hg HI Hin.
    eapply inv_of; eauto. cbn [sem] in Hin. apply in_map_iff in Hin. destruct Hin as (s1 & <- & H1). cbn [snd].
    apply s0ok_upd; [lia|].
    assert (HI1 : Inv b (ix, upd caps (2 * g0) (V ix))).
    { destruct HI as ([Hb Hc] & H0 & Hp). split; [split; [exact Hb|cbn [snd]; apply val_ok_upd; auto]|].
      split; [cbn [snd]; apply s0ok_upd; [lia|exact H0]|exact Hp]. }
    apply (IHe b Hk Hw fuel (S g0) _ s1 ltac:(lia) HI1 H1).
  - (* LookAround *) destruct IHe as [IHe IHalts]. intros b Hk Hw fuel g0 [ix caps] st' Hg HI Hin.
    eapply inv_of; eauto. cbn [kok wfe] in Hk, Hw. destruct la.
    + (* ahead *) cbn [is_behind_k negb] in Hk. rewrite andb_true_r in Hk. cbn [sem] in Hin.
      apply in_map_iff in Hin. destruct Hin as (s1 & <- & H1). cbn [snd].
      assert (H1' : In s1 (sem cx e fuel g0 (ix, caps))).
      { destruct (sem cx e fuel g0 (ix, caps)); [destruct H1|]. destruct H1 as [<-|[]]. left; auto. }
      apply (IHe b Hk Hw fuel g0 _ s1 Hg HI H1').
    + cbn [sem] in Hin. destruct (sem cx e fuel g0 (ix, caps)); [|destruct Hin]. destruct Hin as [<-|[]]. apply HI.
    + (* behind *) cbn [is_behind_k negb] in Hk. rewrite andb_false_r in Hk.
      assert (Hone : forall a ga j s, In a (alts_of e) -> 1 <= ga -> In j (backs cx ix ix) ->
                       In s (sem cx a fuel ga (j, caps)) -> s0ok (snd s)).
      { intros a ga j s Ha Hga Hj Hs.
        assert (HIj : Inv false (j, caps)).
        { destruct HI as ([Hb Hc] & H0 & _). split; [split; [|exact Hc]|split; [exact H0|discriminate]].
          cbn [fst]. pose proof (backs_ok cs W cx Htext Hlen ix ix Hb) as HF. rewrite Forall_forall in HF. auto. }
        rewrite Forall_forall in IHalts.
        apply (IHalts a Ha false (kok_list_in _ _ _ (kok_alts _ _ Hk) Ha) (wfe_list_in _ _ (wfe_alts _ Hw) Ha) fuel ga _ s Hga HIj Hs). }
      cbn [sem] in Hin.
      match type of Hin with In _ (match ?f with _ => _ end) => destruct f as [sf|] eqn:Ef end; [|destruct Hin].
      destruct (is_alt e && negb (const_size e)).
      * destruct e; try (destruct Hin; fail).
        destruct (split_in_g fuel ix caps _ _ _ Hin) as (x & gx & s & Hgx & Hx & Hf & ->).
        destruct (try_alt_found cx _ _ _ _ _ _ Hf) as (j & Hj & Hs). cbn [snd].
        apply (Hone x gx j s Hx ltac:(lia) Hj Hs).
      * destruct Hin as [<-|[]]. cbn [snd].
        destruct (lookbehind_found_g e fuel g0 ix caps sf Ef) as (a & ga & j & Hga & Ha & Hj & Hs).
        apply (Hone a ga j sf Ha ltac:(lia) Hj Hs).
    + cbn [sem] in Hin.
      match type of Hin with In _ (match ?f with _ => _ end) => destruct f as [sf|] eqn:Ef end; [destruct Hin|].
      destruct Hin as [<-|[]]. apply HI.
  - (* Repeat *) destruct IHe as [IHe _]. intros b Hk Hw fuel g0 st st' Hg HI Hin.
    destruct st as [ix caps]. cbn [sem] in Hin. cbn [kok wfe] in Hk, Hw.
    assert (Hbody : forall s s', Inv b s -> In s' (sem cx e fuel g0 s) -> Inv b s') by (intros; eapply IHe; eauto).
    apply in_flat_map in Hin. destruct Hin as (s1 & H1 & H2).
    pose proof (rep_must_inv (Inv b) _ Hbody _ _ _ HI H1) as HI1.
    destruct (N.eqb hi usize_max).
    + eapply rep_opt_u_inv; eauto.
    + eapply rep_opt_b_inv; eauto.
  - (* AtomicGroup *) destruct IHe as [IHe _]. intros b Hk Hw fuel g0 [ix caps] st' Hg HI Hin.
    cbn [sem] in Hin. cbn [kok wfe] in Hk, Hw.
    assert (Hin' : In st' (sem cx e fuel g0 (ix, caps))).
    { destruct (sem cx e fuel g0 (ix, caps)); [destruct Hin|]. destruct Hin as [<-|[]]. left; auto. }
    eapply IHe; eauto.
  - (* KeepOut *) intros b Hk Hw fuel g0 [ix caps] st' Hg HI Hin. eapply inv_of; eauto.
    cbn [sem] in Hin. destruct Hin as [<-|[]]. cbn [snd kok] in *. apply s0ok_upd0. apply HI. exact Hk.
  - (* Conditional *) destruct IHe1 as [IH1 _]. destruct IHe2 as [IH2 _]. destruct IHe3 as [IH3 _].
    intros b Hk Hw fuel g0 [ix caps] st' Hg HI Hin. cbn [sem] in Hin. cbn [kok wfe] in Hk, Hw.
    destruct Hk as (K1 & K2 & K3). destruct Hw as (W1 & W2 & W3).
    destruct (sem cx e1 fuel g0 (ix, caps)) as [|s1 rest] eqn:E1.
    + apply (IH3 b K3 W3 fuel (g0 + ngroups e1 + ngroups e2) _ st' ltac:(lia) HI Hin).
    + assert (H1' : In s1 (sem cx e1 fuel g0 (ix, caps))) by (rewrite E1; left; auto).
      pose proof (IH1 b K1 W1 fuel g0 _ s1 Hg HI H1') as HI1.
      apply (IH2 b K2 W2 fuel (g0 + ngroups e1) _ st' ltac:(lia) HI1 Hin).
Qed.

Theorem keep_inv : forall e b, kok b e -> wfe e -> forall fuel g st st', 1 <= g -> Inv b st ->
  In st' (sem cx e fuel g st) -> Inv b st'.
Proof. intros e. apply (proj1 (keep_aux e)). Qed.


End K.

(* the capture vector keeps its length (parametricity at the relation "equal and of length L") *)
Lemma sem_length cx e fuel g st st' : In st' (sem cx e fuel g st) -> length (snd st') = length (snd st).
Proof.
  intros Hin. set (L := length (snd st)).
  set (rho := fun A B : list val => A = B /\ length A = L).
  assert (Hrefs : forall x, refs_ok True (fun _ => True) x).
  { induction x using expr_ind'; cbn [refs_ok]; auto.
    - induction H; cbn; auto.
    - induction H; cbn; auto. }
  pose proof (param cx rho (fun _ => True)
                ltac:(intros A B i x _ [-> HL]; split; [reflexivity|now rewrite upd_length])
                True ltac:(auto) (fun _ => True)
                ltac:(intros A B grp _ [-> _]; auto)
                e (Hrefs e) fuel g st st ltac:(intros h Hh; split; exact I)
                ltac:(split; [reflexivity|split; reflexivity])) as Hl.
  assert (Hgen : forall l1 l2, Forall2 (srel rho) l1 l2 -> In st' l1 -> length (snd st') = L).
  { induction 1 as [|a b l1 l2 Hab Hr IH]; intros Hi; [destruct Hi|]. destruct Hi as [<-|Hi]; auto.
    destruct Hab as [_ [_ HL]]. exact HL. }
  eapply Hgen; eauto.
Qed.

Section Start.
Variable cs : list (list nat).
Hypothesis W : valid_chars cs.
Variable cx : ctx.
Hypothesis Htext : c_text cx = concat cs.
Hypothesis Hlen : (N.of_nat (length (concat cs)) < usize_max)%N.
Hypothesis Hpos : bnd cs (c_pos cx).

(* the wrap prefix (?s:.)*? moves forward and leaves the capture vector alone *)
Lemma dotstar_caps fuel g st st' : In st' (sem cx (Repeat (Any true) 0 usize_max false) fuel g st) -> snd st' = snd st.
Proof.
  intros Hin. destruct st as [ix caps]. cbn [sem] in Hin.
  assert (Hbody : forall s s', snd s = caps -> In s' (sem cx (Any true) fuel g s) -> snd s' = caps).
  { intros [i c] s' Hs Hi. cbn [sem] in Hi. destruct (nth_error (c_text cx) i); [|destruct Hi].
    cbn [orb] in Hi. destruct Hi as [<-|[]]. exact Hs. }
  apply in_flat_map in Hin. destruct Hin as (s1 & H1 & H2). cbn [N.to_nat rep_must] in H1. destruct H1 as [<-|[]].
  change (N.eqb usize_max usize_max) with true in H2. cbv iota in H2.
  apply (rep_opt_u_inv (fun s => snd s = caps) _ Hbody false fuel (ix, caps) st' eq_refl H2).
Qed.

(* every result of the reference search starts at or after the search offset, ends inside the
   text, start <= end, both on character boundaries *)
Theorem search_span_ok e fuel caps : kok true e -> wfe e ->
  search_list cx e fuel = Some caps ->
  exists a b rest, caps = V a :: V b :: rest /\ c_pos cx <= a /\ a <= b /\ b <= length (concat cs) /\
                   bnd cs a /\ bnd cs b.
Proof.
  intros Hk Hw Hsl. unfold search_list in Hsl.
  set (st0 := (c_pos cx, init_caps (S (ngroups e)))) in *.
  destruct (sem cx (wrap e) fuel 0 st0) as [|s rest0] eqn:Es; [discriminate|]. inversion Hsl; subst caps. clear Hsl.
  assert (Hin : In s (sem cx (wrap e) fuel 0 st0)) by (rewrite Es; left; auto). clear Es.
  assert (Hs0 : st_ok cs st0).
  { split; [exact Hpos|]. cbn [snd]. unfold init_caps. apply Forall_forall. intros x Hx. apply repeat_spec in Hx. subst. exact I. }
  unfold wrap in Hin. rewrite sem_concat_eq in Hin. cbn [sem_cat] in Hin.
  apply in_flat_map in Hin. destruct Hin as (s1 & H1 & H2).
  apply in_flat_map in H2. destruct H2 as (s2 & H2 & H3). destruct H3 as [<-|[]].
  assert (Hw1 : wfe (Repeat (Any true) 0 usize_max false)) by exact I.
  destruct (sem_sound cs W cx Htext Hlen _ Hw1 fuel 0 st0 s1 Hs0 H1) as (n1 & [Hs1 D1] & _).
  destruct (dist_bnd cs W _ _ _ D1) as (_ & _ & Hle1). cbn [fst] in Hle1.
  pose proof (dotstar_caps _ _ _ _ H1) as Hc1. cbn [snd] in Hc1.
  destruct s1 as [ix1 caps1]. cbn [fst snd] in *. subst caps1.
  change (0 + ngroups (Repeat (Any true) 0 usize_max false)) with 0 in H2.
  cbn [sem] in H2. apply in_map_iff in H2. destruct H2 as (s3 & <- & H3).
  set (c1 := upd (init_caps (S (ngroups e))) (2 * 0) (V ix1)) in *.
  assert (HI1 : Inv cs (c_pos cx) true (ix1, c1)).
  { split; [split; [apply Hs1|cbn [snd]; apply val_ok_upd; [apply Hs0|apply Hs1]]|].
    split; [cbn [snd]; apply s0ok_upd0; exact Hle1|intros _; exact Hle1]. }
  destruct (keep_inv cs W cx Htext Hlen (c_pos cx) e true Hk Hw fuel 1 _ s3 (le_n 1) HI1 H3) as ([Hb3 Hc3] & H03 & Hp3).
  specialize (Hp3 eq_refl).
  pose proof (sem_length _ _ _ _ _ _ H3) as HL. cbn [snd] in HL. unfold c1 in HL. rewrite upd_length in HL.
  unfold st0 in HL. cbn [snd] in HL. unfold init_caps in HL. rewrite repeat_length in HL.
  destruct s3 as [ix3 caps3]. cbn [fst snd] in *.
  destruct caps3 as [|v0 [|v1 rest]]; cbn [length] in HL; try lia.
  change (2 * 0 + 1) with 1. cbn [upd snd]. unfold s0ok, getcap in H03. cbn [nth_error] in H03.
  inversion Hc3 as [|? ? Hv0 _]; subst.
  pose proof (bnd_le cs _ Hb3) as Hle3.
  unfold end_fix, getcap. cbn [nth_error].
  destruct v0 as [a|].
  - cbn [val_ok] in Hv0. destruct (Nat.ltb_spec ix3 a).
    + cbn [upd]. exists ix3, ix3, rest. repeat split; auto; lia.
    + exists a, ix3, rest. repeat split; auto; lia.
  - cbn [upd]. exists ix3, ix3, rest. repeat split; auto; lia.
Qed.
End Start.
