(* EndToEnd.v — the chain  Rust-shaped VM (L0, copy-on-write state)  ->  reference state (L1)
   ->  small-step machine  ->  compiled code generates exactly the reference semantics' results,
   assembled: what [vm_run] reports for a compiled (wrapped) pattern is what the reference search
   [search_list] says.  Scope: programs whose Delegate instructions hand over deterministic capture-free
   blocks ([okdeleg]), patterns without
   a conditional inside an atomic group, look-around or condition (predicate [oke true]). *)
From FR Require Import Base State Utf8 Utf8Facts Chars Ast Analyze Sem ExprLemmas SemSound GoBack
                       Vm Compile StateRefine VmRefine Machine Param Atomize CompileCorrect RunCorrect ArrowA.
From Coq Require Import Lia NArith.

Lemma firstn_repeat' {A} (x : A) : forall n m, n <= m -> firstn n (repeat x m) = repeat x n.
Proof. induction n as [|n IH]; intros m H; destruct m; cbn; auto; try lia. f_equal. apply IH. lia. Qed.

Section E2E.
Variable cs : list (list nat).
Hypothesis W : valid_chars cs.
Variable cx : ctx.
Hypothesis Htext : c_text cx = concat cs.
Hypothesis Hlen : (N.of_nat (length (concat cs)) < usize_max)%N.
Hypothesis Hpos : bnd cs (c_pos cx).
Variable bs : N -> bool.
Variable e : expr.
Variable p : prog.
Hypothesis Hcomp : compile bs (wrap e) = inr p.
Hypothesis Hnd : okdeleg (p_body p).
Hypothesis Hok : oke true 0 (wrap e).
Variable fuel : nat.
Hypothesis Hfuel : length (concat cs) < fuel.

Let NC := 2 * S (ngroups e).

Theorem machine_agrees max_st :
  NC <= p_nsaves p /\ exists o, steps cx (p_body p) max_st (Run 0 (c_pos cx) (repeat MAXV (p_nsaves p)) [] []) (Halt o) /\
    match o with
    | RMatch sv => search_list cx e fuel = Some (firstn NC sv) /\ NC <= length sv
    | RNoMatch => search_list cx e fuel = None
    | _ => False
    end.
Proof.
  unfold compile in Hcomp.
  destruct (visit bs (wrap e) 0 false 0 (ngroups (wrap e) * 2)) as [er|[code ns']] eqn:Hv; [discriminate|].
  inversion Hcomp; subst p. clear Hcomp. cbn [p_body p_nsaves] in *.
  assert (Eg : ngroups (wrap e) * 2 = NC) by (rewrite ngroups_wrap; unfold NC; lia).
  rewrite Eg in Hv.
  apply okdeleg_app in Hnd as [Hndc _].
  assert (HAt : At (code ++ [IEnd]) 0 code).
  { intros k i Hk. cbn [Nat.add]. rewrite nth_error_app1; auto. apply nth_error_Some. congruence. }
  assert (HNC : 2 <= NC) by (unfold NC; lia).
  destruct (seg_all cs W cx Htext Hlen bs (code ++ [IEnd]) max_st NC HNC fuel Hfuel true (wrap e)
              0 false 0 NC code ns' Hv Hndc HAt Hok (le_n _) ltac:(rewrite ngroups_wrap; unfold NC; lia)) as [Hm G].
  set (v0 := {| v_ix := c_pos cx; v_sl := repeat MAXV ns'; v_aux := [] |}).
  assert (Hcaps0 : caps NC (v_sl v0) = init_caps (S (ngroups e))).
  { unfold caps, v0, init_caps; cbn [v_sl]. fold NC. rewrite firstn_repeat' by lia. reflexivity. }
  assert (Hok0 : st_ok cs (sof NC v0)).
  { split; [exact Hpos|]. cbn [sof snd]. rewrite Hcaps0. unfold init_caps. apply Forall_forall.
    intros x Hx. apply repeat_spec in Hx. subst. exact I. }
  specialize (G v0 [] ltac:(unfold v0; cbn [v_sl]; rewrite repeat_length; lia) Hok0).
  split; [exact Hm|].
  unfold search_list. change (sof NC v0) with (c_pos cx, caps NC (v_sl v0)) in G. rewrite Hcaps0 in G.
  assert (HEnd : at_ (code ++ [IEnd]) (0 + length code) IEnd).
  { unfold at_. cbn [Nat.add]. rewrite nth_error_app2 by lia. now rewrite Nat.sub_diag. }
  destruct (sem cx (wrap e) fuel 0 (c_pos cx, init_caps (S (ngroups e)))) as [|x rest]; cbn [map] in G.
  - inversion G as [c Hs|]; subst. exists RNoMatch. split; auto.
    eapply steps_trans; [exact Hs|]. apply steps_step. reflexivity.
  - inversion G as [|c v' F Q Ps Hs HF HQ Hrest]; subst. destruct HQ as (Hi & Hc & Hax & [HL HFr]).
    destruct (step_endinsn cx (code ++ [IEnd]) max_st (0 + length code) (v_ix v') (v_sl v') (v_aux v') (F ++ []) HEnd) as (sv & Hst & Hlsv & Hfirst).
    { rewrite HL. unfold v0; cbn [v_sl]. rewrite repeat_length. lia. }
    exists (RMatch sv). split.
    + eapply steps_trans; [exact Hs|]. apply steps_step. exact Hst.
    + split.
      * rewrite (Hfirst NC HNC). fold (caps NC (v_sl v')). rewrite Hc. reflexivity.
      * rewrite Hlsv, HL. unfold v0; cbn [v_sl]. rewrite repeat_length. lia.
Qed.

(* what the Rust-shaped VM reports *)
Theorem vm_agrees_with_reference max_st lim fuelv :
  match fst (vm_run cx p max_st lim fuelv) with
  | RMatch sv => search_list cx e fuel = Some (firstn NC sv)
  | RNoMatch => search_list cx e fuel = None
  | RPanic => False
  | _ => True
  end.
Proof.
  destruct (machine_agrees max_st) as (HnN & o & Hs & Ho).
  assert (Hn2 : 2 <= p_nsaves p) by (unfold NC in HnN; lia).
  pose proof (loop_follows_machine cx p max_st lim fuelv (p_nsaves p) o Hs) as H1.
  assert (HR : Rel (st_new (p_nsaves p) max_st) (r_new (p_nsaves p) max_st)).
  { split; [split; [apply WF_new|cbn [st_new esp]; exact Hn2]|apply abs_new]. }
  pose proof (run_sim cx p lim fuelv 0 (c_pos cx) _ _ 0%N stats0 HR) as H2.
  unfold vm_run, run_loop.
  destruct (grun_loop cx rstate iface1 p lim fuelv 0 (c_pos cx) (r_new (p_nsaves p) max_st) 0%N stats0) as [o1 st1].
  destruct (grun_loop cx state iface0 p lim fuelv 0 (c_pos cx) (st_new (p_nsaves p) max_st) 0%N stats0) as [o0 st0].
  cbn [fst] in *. destruct H2 as [H2 _]. destruct H1 as [H1|H1].
  - subst o1. destruct o as [sv| | | | |]; try contradiction; cbn [out_rel] in H2.
    + destruct H2 as (sv0 & n & E0 & Hn). subst o0. destruct Ho as [Ho HlNC]. rewrite Ho. f_equal. rewrite <- Hn.
      rewrite firstn_firstn. f_equal. rewrite <- Hn in HlNC. rewrite firstn_length in HlNC. lia.
    + subst o0. exact Ho.
  - destruct H1 as [E1|[E1|E1]]; subst o1; cbn [out_rel] in H2; subst o0; exact I.
Qed.

End E2E.

(* ====================================================================================== *)
(* Stage 2: every compiled program.  The VM implements the reference semantics of the
   ATOMIZED tree (Proofs/Atomize.v): blocks handed to the automata engine are atomic.      *)
(* ====================================================================================== *)
Section E2ED.
Variable cs : list (list nat).
Hypothesis W : valid_chars cs.
Variable cx : ctx.
Hypothesis Htext : c_text cx = concat cs.
Hypothesis Hlen : (N.of_nat (length (concat cs)) < usize_max)%N.
Hypothesis Hpos : bnd cs (c_pos cx).
Variable bs : N -> bool.
Variable e : expr.
Variable p : prog.
Hypothesis Hcomp : compile bs (wrap e) = inr p.
Hypothesis Hok : oke true 0 (wrap e).

Let NC := 2 * S (ngroups e).
Let fuel := S (length (c_text cx)).

(* the reference search over the tree the program implements *)
Definition dsearch : option (list val) :=
  match sem cx (atomize bs (wrap e) 0 false) fuel 0 (c_pos cx, init_caps (S (ngroups e))) with
  | s :: _ => Some (end_fix (snd s))
  | [] => None
  end.

Theorem machine_agreesD max_st :
  NC <= p_nsaves p /\ exists o, steps cx (p_body p) max_st (Run 0 (c_pos cx) (repeat MAXV (p_nsaves p)) [] []) (Halt o) /\
    match o with
    | RMatch sv => dsearch = Some (firstn NC sv) /\ NC <= length sv
    | RNoMatch => dsearch = None
    | _ => False
    end.
Proof.
  unfold compile in Hcomp.
  destruct (visit bs (wrap e) 0 false 0 (ngroups (wrap e) * 2)) as [er|[code ns']] eqn:Hv; [discriminate|].
  inversion Hcomp; subst p. clear Hcomp. cbn [p_body p_nsaves] in *.
  assert (Eg : ngroups (wrap e) * 2 = NC) by (rewrite ngroups_wrap; unfold NC; lia).
  rewrite Eg in Hv.
  assert (HAt : At (code ++ [IEnd]) 0 code).
  { intros k i Hk. cbn [Nat.add]. rewrite nth_error_app1; auto. apply nth_error_Some. congruence. }
  assert (HNC : 2 <= NC) by (unfold NC; lia).
  assert (Hfuel : length (concat cs) < fuel) by (unfold fuel; rewrite Htext; lia).
  assert (HfS : FuelS cx fuel) by reflexivity.
  pose proof (visit_okdeleg2 cs Hlen bs NC HNC fuel Hfuel _ _ _ _ _ _ _ Hv) as Hnd.
  destruct (seg_allD cs W cx Htext Hlen bs (code ++ [IEnd]) max_st NC HNC fuel Hfuel HfS true (wrap e)
              0 false 0 NC code ns' Hv Hnd HAt Hok (le_n _) ltac:(rewrite ngroups_wrap; unfold NC; lia)) as [Hm G].
  set (v0 := {| v_ix := c_pos cx; v_sl := repeat MAXV ns'; v_aux := [] |}).
  assert (Hcaps0 : caps NC (v_sl v0) = init_caps (S (ngroups e))).
  { unfold caps, v0, init_caps; cbn [v_sl]. fold NC. rewrite firstn_repeat' by lia. reflexivity. }
  assert (Hok0 : st_ok cs (sof NC v0)).
  { split; [exact Hpos|]. cbn [sof snd]. rewrite Hcaps0. unfold init_caps. apply Forall_forall.
    intros x Hx. apply repeat_spec in Hx. subst. exact I. }
  specialize (G v0 [] ltac:(unfold v0; cbn [v_sl]; rewrite repeat_length; lia) Hok0).
  split; [exact Hm|].
  unfold dsearch. change (sof NC v0) with (c_pos cx, caps NC (v_sl v0)) in G. rewrite Hcaps0 in G.
  assert (HEnd : at_ (code ++ [IEnd]) (0 + length code) IEnd).
  { unfold at_. cbn [Nat.add]. rewrite nth_error_app2 by lia. now rewrite Nat.sub_diag. }
  destruct (sem cx (atomize bs (wrap e) 0 false) fuel 0 (c_pos cx, init_caps (S (ngroups e)))) as [|x rest]; cbn [map] in G.
  - inversion G as [c Hs|]; subst. exists RNoMatch. split; auto.
    eapply steps_trans; [exact Hs|]. apply steps_step. reflexivity.
  - inversion G as [|c v' F Q Ps Hs HF HQ Hrest]; subst. destruct HQ as (Hi & Hc & Hax & [HL HFr]).
    destruct (step_endinsn cx (code ++ [IEnd]) max_st (0 + length code) (v_ix v') (v_sl v') (v_aux v') (F ++ []) HEnd) as (sv & Hst & Hlsv & Hfirst).
    { rewrite HL. unfold v0; cbn [v_sl]. rewrite repeat_length. lia. }
    exists (RMatch sv). split.
    + eapply steps_trans; [exact Hs|]. apply steps_step. exact Hst.
    + split.
      * rewrite (Hfirst NC HNC). fold (caps NC (v_sl v')). rewrite Hc. reflexivity.
      * rewrite Hlsv, HL. unfold v0; cbn [v_sl]. rewrite repeat_length. lia.
Qed.

Theorem vm_agrees_atomized max_st lim fuelv :
  match fst (vm_run cx p max_st lim fuelv) with
  | RMatch sv => dsearch = Some (firstn NC sv)
  | RNoMatch => dsearch = None
  | RPanic => False
  | _ => True
  end.
Proof.
  destruct (machine_agreesD max_st) as (HnN & o & Hs & Ho).
  assert (Hn2 : 2 <= p_nsaves p) by (unfold NC in HnN; lia).
  pose proof (loop_follows_machine cx p max_st lim fuelv (p_nsaves p) o Hs) as H1.
  assert (HR : Rel (st_new (p_nsaves p) max_st) (r_new (p_nsaves p) max_st)).
  { split; [split; [apply WF_new|cbn [st_new esp]; exact Hn2]|apply abs_new]. }
  pose proof (run_sim cx p lim fuelv 0 (c_pos cx) _ _ 0%N stats0 HR) as H2.
  unfold vm_run, run_loop.
  destruct (grun_loop cx rstate iface1 p lim fuelv 0 (c_pos cx) (r_new (p_nsaves p) max_st) 0%N stats0) as [o1 st1].
  destruct (grun_loop cx state iface0 p lim fuelv 0 (c_pos cx) (st_new (p_nsaves p) max_st) 0%N stats0) as [o0 st0].
  cbn [fst] in *. destruct H2 as [H2 _]. destruct H1 as [H1|H1].
  - subst o1. destruct o as [sv| | | | |]; try contradiction; cbn [out_rel] in H2.
    + destruct H2 as (sv0 & n & E0 & Hn). subst o0. destruct Ho as [Ho HlNC]. rewrite Ho. f_equal. rewrite <- Hn.
      rewrite firstn_firstn. f_equal. rewrite <- Hn in HlNC. rewrite firstn_length in HlNC. lia.
    + subst o0. exact Ho.
  - destruct H1 as [E1|[E1|E1]]; subst o1; cbn [out_rel] in H2; subst o0; exact I.
Qed.

End E2ED.

(* ====================================================================================== *)
(* Stage 3: every compiled program against the reference semantics of the ORIGINAL tree.
   Arrow A (Proofs/ArrowA.v): making the delegated blocks atomic does not change the first
   result, captures included, provided every group a back-reference reads is in the
   analyzer's back-reference set [bs] (the parser's invariant).                             *)
(* ====================================================================================== *)

(* a successful compilation certifies the look-behind shape arrow A needs *)
Lemma visit_lbk' bs e g hc pc ns r : visit bs e g hc pc ns = inr r -> lbk e.
Proof. apply (visit_lbk [] eq_refl bs 2 (le_n 2) 1 (le_n 1)). Qed.

Lemma lbc_of : forall e b, rok b e -> lbk e -> lbc e.
Proof.
  induction e using expr_ind'; intros b Hr Hk; try exact I.
  - rewrite rok_concat in Hr. rewrite lbk_concat in Hk. rewrite lbc_concat.
    induction H as [|x r Hx Hrr IH]; [exact I|]. destruct Hr as [R1 R2]. destruct Hk as [K1 K2]. split; eauto.
  - rewrite rok_alt in Hr. rewrite lbk_alt in Hk. rewrite lbc_alt.
    induction H as [|x r Hx Hrr IH]; [exact I|]. destruct Hr as [R1 R2]. destruct Hk as [K1 K2]. split; eauto.
  - cbn [rok lbk lbc] in *. eauto.
  - cbn [rok lbk lbc] in *. destruct Hr as [R1 R2]. destruct Hk as [K1 K2]. split; [eauto|]. intros Hb. split; auto.
  - cbn [rok lbk lbc] in *. eauto.
  - cbn [rok lbk lbc] in *. eauto.
  - cbn [rok lbk lbc] in *. destruct b; [|contradiction]. destruct Hr as (R1 & R2 & R3). destruct Hk as (K1 & K2 & K3).
    repeat split; eauto.
Qed.

Section E2EF.
Variable cs : list (list nat).
Hypothesis W : valid_chars cs.
Variable cx : ctx.
Hypothesis Htext : c_text cx = concat cs.
Hypothesis Hlen : (N.of_nat (length (concat cs)) < usize_max)%N.
Hypothesis Hpos : bnd cs (c_pos cx).
Variable bs : N -> bool.
Variable e : expr.
Variable p : prog.
Hypothesis Hcomp : compile bs (wrap e) = inr p.
Hypothesis Hok : oke true 0 (wrap e).
Hypothesis Hrefs : refs_ok True (refd bs) (wrap e).

Let NC := 2 * S (ngroups e).
Let fuel := S (length (c_text cx)).

Lemma dsearch_search : dsearch cx bs e = search_list cx e fuel.
Proof.
  unfold dsearch, search_list. fold fuel.
  assert (Hfuel : length (concat cs) < fuel) by (unfold fuel; rewrite Htext; lia).
  assert (Hp : preA bs (wrap e)).
  { destruct Hok as (Hw & Hz & _ & Hrk).
    assert (Hlbc : lbc (wrap e)).
    { apply (lbc_of _ true Hrk). unfold compile in Hcomp.
      destruct (visit bs (wrap e) 0 false 0 (ngroups (wrap e) * 2)) as [er|r] eqn:Hv; [discriminate|].
      eapply visit_lbk'; eauto. }
    exact (conj Hw (conj Hz (conj Hrefs Hlbc))). }
  assert (Hs : st_ok cs (c_pos cx, init_caps (S (ngroups e)))).
  { split; [exact Hpos|]. cbn [snd]. unfold init_caps. apply Forall_forall.
    intros x Hx. apply repeat_spec in Hx. subst. exact I. }
  pose proof (arrowA cs W cx Htext Hlen bs fuel Hfuel (wrap e) _ Hp Hs) as H.
  destruct (sem cx (atomize bs (wrap e) 0 false) fuel 0 (c_pos cx, init_caps (S (ngroups e)))) as [|a ra],
           (sem cx (wrap e) fuel 0 (c_pos cx, init_caps (S (ngroups e)))) as [|b rb]; cbn in H; try discriminate; auto.
  inversion H; reflexivity.
Qed.

Theorem vm_agrees_with_reference_all max_st lim fuelv :
  match fst (vm_run cx p max_st lim fuelv) with
  | RMatch sv => search_list cx e fuel = Some (firstn NC sv)
  | RNoMatch => search_list cx e fuel = None
  | RPanic => False
  | _ => True
  end.
Proof.
  rewrite <- dsearch_search.
  exact (vm_agrees_atomized cs W cx Htext Hlen Hpos bs e p Hcomp Hok max_st lim fuelv).
Qed.

End E2EF.
