(* ExpandPython.v — the documented syntax of the Python-style expander (`\N`, `\g<name>`, `\\`),
   the numeric reference of both expanders, and the stray substitution character. *)
From FR Require Import Base Utf8 Utf8Facts Sem Api Expand ExpandProofs.

Lemma starts_with_app pre s : starts_with (pre ++ s) pre = true.
Proof. induction pre as [|p pre IH]; [apply starts_with_nil|]. cbn [app starts_with]. now rewrite Nat.eqb_refl, IH. Qed.

(* delimited identifier: open name close *)
Lemma parse_id_delim op cb cl name rest : name <> [] -> Forall idb name ->
  cb < 128 -> is_id_cp cb = false ->
  parse_id (op ++ name ++ (cb :: cl) ++ rest) op (cb :: cl) =
  Some (name, length op + length name + length (cb :: cl)).
Proof.
  intros Hne Hn Hcb Hcid. unfold parse_id. rewrite starts_with_app, skipn_len_app'. cbv zeta.
  assert (Hrun : id_run (length (name ++ (cb :: cl) ++ rest)) (name ++ (cb :: cl) ++ rest) 0 = length name).
  { apply id_run_name; [exact Hn|cbn [app]; split; assumption|lia|rewrite app_length; lia]. }
  rewrite Hrun.
  assert (Hlt : (length name <? length (name ++ (cb :: cl) ++ rest)) = true)
    by (apply Nat.ltb_lt; rewrite !app_length; cbn [length]; lia).
  rewrite Hlt, skipn_len_app', starts_with_app.
  destruct name as [|n0 name'] eqn:En; [contradiction|]. rewrite <- En in *.
  assert (Hl : length name = S (length name')) by (subst name; reflexivity). rewrite Hl.
  assert (Hle : (length op + S (length name') <=? length (op ++ name ++ (cb :: cl) ++ rest)) = true).
  { apply Nat.leb_le. rewrite !app_length. lia. }
  rewrite Hle. unfold slice. rewrite skipn_len_app'.
  replace (length op + S (length name') - length op) with (length name) by lia. rewrite firstn_len_app'.
  reflexivity.
Qed.

(* one step at the substitution character (Python expander) *)
Lemma exec_backslash_python f tail :
  exec_steps expander_python (S f) (92 :: tail) =
  if starts_with tail [92] then StChar [92] :: exec_steps expander_python f (skipn 1 tail)
  else match parse_id tail [103; 60] [62] with
       | Some (id, skip) => StName id :: exec_steps expander_python f (skipn skip tail)
       | None => match parse_decimal0 tail with
                 | Some (skip, num) => StNum num :: exec_steps expander_python f (skipn skip tail)
                 | None => StError :: StChar [92] :: exec_steps expander_python f tail
                 end
       end.
Proof. cbn [exec_steps]. change (92 =? sub_char expander_python) with true. cbv iota.
  change (cp_len 92) with 1. change (skipn 1 (92 :: tail)) with tail.
  change (sub_char expander_python) with 92. change (x_open expander_python) with [103; 60].
  change (x_close expander_python) with [62]. change (undelimited expander_python) with false.
  destruct (parse_id tail [103; 60] [62]) as [[id sk]|]; reflexivity.
Qed.

(* \g<name> *)
Theorem steps_python_named name rest : name <> [] -> Forall idb name ->
  steps expander_python (92 :: 103 :: 60 :: name ++ 62 :: rest) = StName name :: steps expander_python rest.
Proof.
  intros Hne Hn. unfold steps. cbn [length]. rewrite exec_backslash_python.
  cbn [starts_with]. change (103 =? 92) with false. cbn [andb].
  change (103 :: 60 :: name ++ 62 :: rest) with ([103; 60] ++ name ++ [62] ++ rest).
  rewrite (parse_id_delim [103; 60] 62 [] name rest Hne Hn); [|lia|reflexivity].
  f_equal. cbn [length].
  replace (2 + length name + 1) with (length ([103; 60] ++ name ++ [62])) by (rewrite !app_length; cbn [length]; lia).
  replace ([103; 60] ++ name ++ [62] ++ rest) with (([103; 60] ++ name ++ [62]) ++ rest)
    by (rewrite <- !app_assoc; reflexivity).
  rewrite skipn_len_app'.
  apply (exec_steps_fuel expander_python ltac:(cbn; lia)); [|lia]. rewrite !app_length. cbn [length]. lia.
Qed.

(* decimal numbers *)
Definition digits (ds : list nat) : Prop := Forall (fun b => is_digit_b b = true) ds.
Definition not_digit_next (rest : list nat) : Prop :=
  match rest with [] => True | b :: _ => is_digit_b b = false end.

Lemma digit_run_app ds rest : digits ds -> not_digit_next rest -> digit_run (ds ++ rest) = length ds.
Proof.
  intros Hd Hr. induction Hd as [|b ds Hb Hd IH]; cbn [app].
  - destruct rest as [|b r]; [reflexivity|]. cbn [digit_run]. cbn in Hr. now rewrite Hr.
  - cbn [digit_run length]. rewrite Hb. now rewrite IH.
Qed.

Lemma parse_decimal0_app ds rest : ds <> [] -> digits ds -> not_digit_next rest ->
  (dec_value ds <= usize_max)%N ->
  parse_decimal0 (ds ++ rest) = Some (length ds, dec_value ds).
Proof.
  intros Hne Hd Hr Hv. unfold parse_decimal0. rewrite (digit_run_app ds rest Hd Hr). cbv zeta.
  destruct ds as [|d ds'] eqn:E; [contradiction|]. rewrite <- E in *.
  assert (Hl : (length ds =? 0) = false) by (subst ds; reflexivity). rewrite Hl.
  rewrite firstn_len_app'. apply N.leb_le in Hv. now rewrite Hv.
Qed.

Lemma parse_decimal0_overflow ds rest : digits ds -> not_digit_next rest ->
  (usize_max < dec_value ds)%N -> parse_decimal0 (ds ++ rest) = None.
Proof.
  intros Hd Hr Hv. unfold parse_decimal0. rewrite (digit_run_app ds rest Hd Hr). cbv zeta.
  destruct (length ds =? 0); [reflexivity|]. rewrite firstn_len_app'.
  apply N.leb_gt in Hv. now rewrite Hv.
Qed.

Lemma digit_not b : is_digit_b b = true -> (b =? 92) = false /\ (b =? 103) = false.
Proof.
  unfold is_digit_b. intros H. apply andb_prop in H. destruct H as [H1 H2].
  apply Nat.leb_le in H1. apply Nat.leb_le in H2. split; apply Nat.eqb_neq; lia.
Qed.

(* \N : the longest run of decimal digits *)
Theorem steps_python_number ds rest : ds <> [] -> digits ds -> not_digit_next rest ->
  (dec_value ds <= usize_max)%N ->
  steps expander_python (92 :: ds ++ rest) = StNum (dec_value ds) :: steps expander_python rest.
Proof.
  intros Hne Hd Hr Hv. unfold steps. cbn [length]. rewrite exec_backslash_python.
  destruct ds as [|d ds'] eqn:E; [contradiction|]. rewrite <- E in *.
  assert (Hd0 : is_digit_b d = true) by (subst ds; now inversion Hd).
  destruct (digit_not d Hd0) as [H92 H103].
  assert (Hsw : starts_with (ds ++ rest) [92] = false) by (subst ds; cbn [app starts_with]; now rewrite H92).
  assert (Hpid : parse_id (ds ++ rest) [103; 60] [62] = None)
    by (unfold parse_id; subst ds; cbn [app starts_with]; now rewrite H103).
  rewrite Hsw, Hpid, (parse_decimal0_app ds rest Hne Hd Hr Hv). f_equal. rewrite skipn_len_app'.
  apply (exec_steps_fuel expander_python ltac:(cbn; lia)); [|lia]. rewrite app_length. lia.
Qed.

(* a stray backslash (followed by nothing the syntax knows) is reported to `check` and copied *)
Theorem steps_python_stray b rest : (b =? 92) = false -> (b =? 103) = false -> is_digit_b b = false ->
  steps expander_python (92 :: b :: rest) = StError :: StChar [92] :: steps expander_python (b :: rest).
Proof.
  intros H92 H103 Hd. unfold steps. cbn [length]. rewrite exec_backslash_python.
  cbn [starts_with]. rewrite H92. cbn [andb].
  assert (Hpid : parse_id (b :: rest) [103; 60] [62] = None) by (unfold parse_id; cbn [starts_with]; now rewrite H103).
  assert (Hpd : parse_decimal0 (b :: rest) = None) by (unfold parse_decimal0; cbn [digit_run]; now rewrite Hd).
  rewrite Hpid, Hpd. reflexivity.
Qed.
Theorem steps_python_stray_end : steps expander_python [92] = [StError; StChar [92]].
Proof. reflexivity. Qed.

(* ... and so is a stray `$` of the default expander when no identifier character follows *)
Theorem steps_default_stray b rest : b < 128 -> is_id_cp b = false -> (b =? 36) = false -> (b =? 123) = false ->
  steps expander_default (36 :: b :: rest) = StError :: StChar [36] :: steps expander_default (b :: rest).
Proof.
  intros Hb Hid H36 H123. unfold steps. cbn [length]. rewrite exec_dollar_default.
  cbn [starts_with]. rewrite H36. cbn [andb].
  assert (Hp1 : parse_id (b :: rest) [123] [125] = None) by (unfold parse_id; cbn [starts_with]; now rewrite H123).
  assert (Hp2 : parse_id (b :: rest) [] [] = None).
  { unfold parse_id. rewrite starts_with_nil. change (length (@nil nat)) with 0. cbn [skipn]. cbv zeta.
    assert (Hrun : id_run (length (b :: rest)) (b :: rest) 0 = 0).
    { cbn [length id_run]. rewrite (decode_ascii _ _ b); [|reflexivity|exact Hb]. now rewrite Hid. }
    rewrite Hrun. change (0 <? length (b :: rest)) with true. cbv iota. cbn [skipn]. rewrite starts_with_nil. reflexivity. }
  assert (Hd : is_digit_b b = false).
  { destruct (is_digit_b b) eqn:E; [|reflexivity]. exfalso.
    unfold is_digit_b in E. apply andb_prop in E. destruct E as [E1 E2]. apply Nat.leb_le in E1. apply Nat.leb_le in E2.
    assert (Hall : forallb (fun k => is_id_cp (48 + k)) (seq 0 10) = true) by reflexivity.
    rewrite forallb_forall in Hall. specialize (Hall (b - 48)).
    replace (48 + (b - 48)) with b in Hall by lia. rewrite Hall in Hid; [discriminate|]. apply in_seq. lia. }
  assert (Hpd : parse_decimal0 (b :: rest) = None) by (unfold parse_decimal0; cbn [digit_run]; now rewrite Hd).
  rewrite Hp1, Hp2, Hpd. reflexivity.
Qed.

(* what a numeric reference inserts.  `$N` of the default expander is the NAME step of the digit
   string (digits are identifier characters): by name first, by number when no group has that name. *)
Theorem expand_named_number c ds : ds <> [] -> digits ds -> (dec_value ds <= usize_max)%N ->
  lookup_name (cp_names c) ds = None ->
  expand_step c (StName ds) = expand_step c (StNum (dec_value ds)).
Proof.
  intros Hne Hd Hv Hl. cbn [expand_step]. rewrite Hl. unfold parse_usize.
  assert (Hf : forallb is_digit_b ds = true) by (apply forallb_forall; intros b Hb; unfold digits in Hd; rewrite Forall_forall in Hd; auto).
  rewrite Hf. destruct ds as [|d ds']; [contradiction|]. cbn [length Nat.eqb negb andb].
  apply N.leb_le in Hv. now rewrite Hv.
Qed.

Theorem expand_number_in_range c n lo hi : (n < N.of_nat (length (cp_saves c)))%N ->
  cap_get (cp_saves c) (N.to_nat n) = Some (V lo, V hi) ->
  expand_step c (StNum n) = slice (cp_text c) lo hi.
Proof. intros Hn Hg. cbn [expand_step]. unfold group_text_n, group_text. apply N.ltb_lt in Hn. now rewrite Hn, Hg. Qed.

Theorem expand_number_absent c n : (N.of_nat (length (cp_saves c)) <= n)%N -> expand_step c (StNum n) = [].
Proof. intros Hn. cbn [expand_step]. unfold group_text_n. apply N.ltb_ge in Hn. now rewrite Hn. Qed.

(* check is complete too: it rejects ONLY templates with a step that is not ok *)
Lemma check_num_complete names n k : k = 0%N \/ (names = [] /\ (k < N.of_nat n)%N) -> check_num names n k = None.
Proof.
  unfold check_num. intros [->|[-> Hk]]; [reflexivity|].
  destruct (N.eqb k 0); [reflexivity|]. apply N.ltb_lt in Hk. now rewrite Hk.
Qed.

Theorem check_complete x template names n :
  Forall (step_ok names n) (steps x template) -> check x template names n = None.
Proof.
  unfold check. induction (steps x template) as [|st l IH]; intros H; [reflexivity|].
  inversion H as [|? ? Hst Hl]; subst. cbn [check_steps]. specialize (IH Hl).
  destruct st as [b|id|k|]; cbn [step_ok] in Hst.
  - exact IH.
  - destruct Hst as [[i Hi]|(k & Hk & Hok)].
    + now rewrite Hi.
    + destruct (lookup_name names id); [exact IH|]. rewrite Hk, (check_num_complete names n k Hok). exact IH.
  - now rewrite (check_num_complete names n k Hst).
  - contradiction.
Qed.
