(* ParseFuel.v — the parser model is total: on a valid UTF-8 pattern its fuel never runs out.
   The model threads fuel through the seven mutually recursive functions of parse.rs (one unit
   per call, also for the tail calls that are loops in the Rust code) and starts with
   12 * (|pattern| + 80).  A call at offset ix and nesting depth d needs at most
       (|pattern| - ix) + 6 * (MAX_RECURSION - d) + k
   units, k <= 6 depending on the function: loops advance by at least one byte per iteration,
   nesting is bounded by the recursion guard.  Together with ParseIdx.v: on valid UTF-8,
   [parse] returns Ok, a ParseError whose position is inside the pattern, or NamedBackrefOnly. *)
From FR Require Import Base Utf8 Utf8Facts Ast Analyze Sem ExprLemmas SemSound Parse ParseInv ParseIdx.
From Coq Require Import Lia NArith.

Section Fuel.
Variable rcs : list (list nat).
Hypothesis W : valid_chars rcs.
Notation re := (concat rcs).
Notation B := (bnd rcs).
Notation len := (length re).
Notation goodR := (good rcs).

(* no out-of-fuel outcome, and a property of the value *)
Definition nf {A} (P : A -> Prop) (r : pres A) : Prop :=
  match r with POk a => P a | PFuel => False | _ => True end.
Lemma both_bind {A C} (PA PA' : A -> Prop) (PC : C -> Prop) (m : pres A) (f : A -> pres C) :
  goodR PA m -> nf PA' m -> (forall a, PA a -> PA' a -> nf PC (f a)) -> nf PC (pbind m f).
Proof. destruct m; cbn; auto; tauto. Qed.
Lemma nf_weaken {A} (P P' : A -> Prop) r : (forall a, P a -> P' a) -> nf P r -> nf P' r.
Proof. destruct r; cbn; auto. Qed.

Lemma Ble k : B k -> k <= len. Proof. apply bnd_le. Qed.

(* ---------- the helpers that carry their own fuel ---------- *)
Lemma skip_comment_nf : forall fuel ix, ix <= len + 1 -> len + 2 <= fuel + ix ->
  nf (fun j => ix <= j) (skip_comment re fuel ix).
Proof.
  induction fuel as [|f IH]; intros ix H1 H2; [lia|]. rewrite (skip_comment_S rcs).
  destruct (Nat.leb_spec len ix); [exact I|].
  destruct (byte re ix) as [b|]; [|eapply nf_weaken; [|apply IH; lia]; cbn; intros; lia].
  destruct (b =? 41); [cbn; lia|]. destruct (b =? 92); (eapply nf_weaken; [|apply IH; lia]); cbn; intros; lia.
Qed.

Lemma ows_nf : forall fuel fl ix, B ix -> len + 2 <= fuel + ix ->
  nf (fun j => ix <= j) (optional_whitespace re fuel fl ix).
Proof.
  induction fuel as [|f IH]; intros fl ix Hb H2; [pose proof (Ble _ Hb); lia|]. cbn [optional_whitespace].
  pose proof (Ble _ Hb) as Hle. destruct (Nat.eqb_spec ix len); [cbn; lia|].
  destruct (byte_lt rcs ix ltac:(lia)) as (b & Eb). rewrite Eb.
  destruct ((b =? 35) && f_space fl).
  { destruct (find_nl (from re ix)) as [x|] eqn:En; [|cbn; lia].
    apply find_nl_nth in En. rewrite (nth_from rcs) in En.
    eapply nf_weaken; [|apply IH; [eapply (asc1 rcs W); [exact En|lia]|lia]]. cbn; intros; lia. }
  destruct (((b =? 32) || (b =? 13) || (b =? 10) || (b =? 9)) && f_space fl) eqn:Ews.
  { eapply nf_weaken; [|apply IH; [eapply (asc1 rcs W); [exact Eb|]|lia]]; [cbn; intros; lia|].
    apply andb_true_iff in Ews as [Ews _]. repeat (apply orb_true_iff in Ews as [Ews|Ews]); apply Nat.eqb_eq in Ews; lia. }
  destruct ((b =? 40) && starts_with (from re ix) [40; 63; 35]) eqn:Ec; [|cbn; lia].
  apply andb_true_iff in Ec as [_ Ec].
  assert (Hix3 : ix + 3 <= len).
  { pose proof (sw_nth _ _ Ec 2 ltac:(cbn; lia)) as Hn. rewrite (nth_from rcs) in Hn. cbn in Hn.
    apply (byte_Some_lt rcs) in Hn. lia. }
  eapply both_bind; [apply (skip_comment_good rcs W)|apply skip_comment_nf; lia|].
  intros j Bj Hj. cbv beta in Hj. eapply nf_weaken; [|apply IH; [exact Bj|lia]]. cbn; intros; lia.
Qed.

Lemma hex_braced_nf : forall fuel sh eh ep, eh <= len -> len + 1 <= fuel + eh ->
  nf (fun j => eh <= j) (hex_braced re fuel sh eh ep).
Proof.
  induction fuel as [|f IH]; intros sh eh ep H1 H2; [lia|]. cbn [hex_braced].
  destruct (Nat.eqb_spec eh len); [exact I|]. destruct (byte re eh) as [b|]; [|exact I].
  destruct ((sh <? eh) && (b =? 125)); [cbn; lia|].
  destruct (is_hex_digit b && (eh <? sh + 8)); [|exact I]. eapply nf_weaken; [|apply IH; lia]. cbn; intros; lia.
Qed.

Lemma uniname_end_nf : forall fuel e ep, B e -> len + 1 <= fuel + e -> nf (fun j => e <= j) (uniname_end re fuel e ep).
Proof.
  induction fuel as [|f IH]; intros e ep He H2; [pose proof (Ble _ He); lia|]. cbn [uniname_end].
  pose proof (Ble _ He). destruct (Nat.eqb_spec e len); [exact I|].
  destruct (byte_lt rcs e ltac:(lia)) as (b & Eb). rewrite Eb.
  destruct (b =? 125); [cbn; lia|]. destruct (step rcs W e b He Eb) as (Hs & _ & _). pose proof (cp_len_cases b).
  eapply nf_weaken; [|apply IH; [exact Hs|lia]]. cbn; intros; lia.
Qed.

(* ---------- leaf parsers: monotone in the offset, never out of fuel ---------- *)
Notation P3lb lb := (fun r : P3 => lb <= fst (fst r)).
Notation P3ok := (fun r : P3 => B (fst (fst r)) /\ wfe (snd (fst r))).
Tactic Notation "wk" tactic3(t) := (eapply nf_weaken; [|t]; [cbn; intros; lia]).

Lemma named_backref_nf st ix o c ar mk : nf (P3lb ix) (parse_named_backref re st ix o c ar mk).
Proof.
  unfold parse_named_backref. destruct (len <? ix); [exact I|].
  destruct (parse_id (from re ix) o c ar) as [[id skip]|]; [|exact I].
  destruct (parse_group_ref st id); [|exact I]. destruct (N.ltb _ _); [|exact I]. cbn. lia.
Qed.
Lemma numbered_backref_nf st ix mk : nf (P3lb ix) (parse_numbered_backref re st ix mk).
Proof.
  unfold parse_numbered_backref. destruct (parse_decimal re ix) as [[e g]|] eqn:E; [|exact I].
  destruct (N.ltb _ _); [|exact I]. cbn. destruct (parse_decimal_bnd rcs W _ _ _ E). lia.
Qed.

Lemma parse_hex_nf fl ix d : ix <= len -> nf (fun r : nat * expr => ix <= fst r) (parse_hex re fl ix d).
Proof.
  intros Hle. unfold parse_hex. destruct (Nat.leb_spec len ix); [exact I|].
  assert (Hfin : forall e ds, ix <= e -> nf (fun r : nat * expr => ix <= fst r)
      (let cp := hex_value ds 0%N in
       if (N.leb 55296 cp && N.leb cp 57343) || N.ltb 1114111 cp
       then @PErr (nat * expr) ix PInvalidCodepointValue
       else POk (e, Literal (encode_utf8 cp) (f_casei fl)))).
  { intros e ds He. cbv zeta.
    destruct ((N.leb 55296 (hex_value ds 0) && N.leb (hex_value ds 0) 57343) || N.ltb 1114111 (hex_value ds 0)); [exact I|cbn; lia]. }
  destruct ((ix + d <=? len) && forallb is_hex_digit (sub re ix (ix + d))); [apply Hfin; lia|].
  destruct (byte_is re ix 123); [|exact I].
  eapply both_bind; [apply (hex_braced_good rcs W); lia|apply hex_braced_nf; lia|].
  intros eh _ Heh. cbv beta in Heh. apply Hfin. lia.
Qed.

Lemma parse_escape_nf st ix ic : byte re ix = Some 92 -> nf (fun r : P3 => ix < fst (fst r)) (parse_escape re st ix ic).
Proof.
  intros H92. destruct (asc rcs W ix 92 H92 ltac:(lia)) as [Bix Bix1].
  unfold parse_escape. destruct (byte re (ix + 1)) as [b|] eqn:Eb; [|exact I].
  destruct (step rcs W (ix + 1) b Bix1 Eb) as (Be & Hele & Hwc). pose proof (cp_len_cases b) as Hcp.
  set (e := ix + 1 + cp_len b) in *. cbv zeta.
  assert (He : ix < e) by (unfold e; lia).
  repeat match goal with
  | |- nf _ (parse_numbered_backref _ _ ?k _) => eapply nf_weaken; [|apply (numbered_backref_nf st k)]; cbn; intros; lia
  | |- nf _ (parse_named_backref _ _ ?k _ _ _ _) => eapply nf_weaken; [|apply (named_backref_nf st k)]; cbn; intros; lia
  | |- nf _ (pbind (parse_hex _ _ _ _) _) =>
      eapply both_bind; [apply (parse_hex_good rcs W); lia|apply parse_hex_nf; lia|intros [j x] _ Hj; cbn in *; lia]
  | |- nf _ (PErr _ _) => exact I
  | |- nf _ PPanic => exact I
  | |- nf _ (if ?c then _ else _) => destruct c eqn:?
  | |- nf _ (match find ?f ?t with _ => _ end) => destruct (find f t) eqn:?
  | |- nf _ (match byte (concat rcs) ?k with _ => _ end) => destruct (byte (concat rcs) k) eqn:?
  end.
  all: try (cbn; lia).
  (* \p{..} *)
  match goal with E : byte _ ?y = Some ?n, Hy : B ?y |- _ => destruct (step rcs W y n Hy E) as (Be2 & Hle2 & _); pose proof (cp_len_cases n) end.
  eapply (both_bind B (fun j => e < j)).
  - match goal with |- good _ _ (if ?c then _ else _) => destruct c end; [apply (uniname_end_good rcs W); [exact Be2|pose proof (Ble _ Bix); lia]|exact Be2].
  - match goal with |- nf _ (if ?c then _ else _) => destruct c end; [wk (apply uniname_end_nf; [exact Be2|lia])|cbn; lia].
  - intros e3 _ He3. destruct (len <? e3); [exact I|]. cbn. lia.
Qed.

Lemma class_loop_nf : forall fuel st ix nest cls, B ix -> 1 <= nest -> len + 1 <= fuel + ix ->
  nf (fun r : nat * list nat * pst => ix <= fst (fst r)) (class_loop re fuel st ix nest cls).
Proof.
  induction fuel as [|f IH]; intros st ix nest cls Hb Hn H2; [pose proof (Ble _ Hb); lia|]. cbn [class_loop].
  pose proof (Ble _ Hb). destruct (Nat.eqb_spec ix len); [exact I|].
  destruct (byte_lt rcs ix ltac:(lia)) as (b & Eb). rewrite Eb.
  destruct (Nat.eqb_spec b 92) as [->|N92].
  { eapply both_bind; [now apply (parse_escape_good rcs W)|now apply parse_escape_nf|].
    intros [[e x] st'] [He Hx] Hlt. cbn [fst snd] in *. destruct x; try exact I; (wk (apply IH; [auto|auto|lia])). }
  destruct (Nat.eqb_spec b 91) as [->|N91]; [wk (apply IH; [eapply (asc1 rcs W); [exact Eb|lia]|lia|lia])|].
  destruct (Nat.eqb_spec b 93) as [->|N93].
  { destruct nest as [|[|nn]]; [lia|cbn; lia|wk (apply IH; [eapply (asc1 rcs W); [exact Eb|lia]|lia|lia])]. }
  destruct (step rcs W ix b Hb Eb) as (Hs & Hle & _). pose proof (cp_len_cases b).
  destruct (len <? ix + cp_len b); [exact I|]. wk (apply IH; [exact Hs|lia|lia]).
Qed.

Lemma parse_class_nf st ix : byte re ix = Some 91 -> nf (P3lb ix) (parse_class re st ix).
Proof.
  intros H91. pose proof (asc1 rcs W ix 91 H91 ltac:(lia)) as B1. unfold parse_class.
  assert (B2 : B (if byte_is re (ix + 1) 94 then ix + 1 + 1 else ix + 1)).
  { destruct (byte_is re (ix + 1) 94) eqn:E; [|exact B1]. apply (byte_is_true rcs) in E. eapply (asc1 rcs W); [exact E|lia]. }
  destruct (byte_is re (ix + 1) 94); cbv zeta beta iota.
  all: match goal with |- context[byte_is _ ?k 93] =>
         assert (B3 : B (if byte_is re k 93 then k + 1 else k))
           by (destruct (byte_is re k 93) eqn:E; [apply (byte_is_true rcs) in E; eapply (asc1 rcs W); [exact E|lia]|exact B2]);
         destruct (byte_is re k 93) end; cbv beta iota.
  all: (eapply both_bind; [apply (class_loop_good rcs W); [exact B3|lia]|apply class_loop_nf; [exact B3|lia|lia]|]);
       intros [[e cls] st'] _ He; cbn [fst snd] in *; cbn; lia.
Qed.

Lemma ows_nf' fl ix : B ix -> nf (fun j => ix <= j) (optional_whitespace re (len + 2) fl ix).
Proof. intros Hb. apply ows_nf; [exact Hb|lia]. Qed.

Lemma parse_repeat_nf fl ix : byte re ix = Some 123 -> nf (fun r : nat * N * N => ix < fst (fst r)) (parse_repeat re fl ix).
Proof.
  intros H123. pose proof (asc1 rcs W ix 123 H123 ltac:(lia)) as B1. unfold parse_repeat. cbv zeta.
  eapply both_bind; [apply (ows_good rcs W); exact B1|apply ows_nf'; exact B1|]. intros ix1 Hix1 L1. cbv beta in L1.
  destruct (ix1 =? len); [exact I|].
  eapply (both_bind (fun r : N * nat => B (snd r)) (fun r : N * nat => ix1 <= snd r)).
  { destruct (byte_is re ix1 44); [exact Hix1|]. destruct (parse_decimal re ix1) as [[nx lo]|] eqn:E; [|cbn; pose proof (Ble _ Hix1); lia].
    cbn. now apply (parse_decimal_bnd rcs W _ _ _ E). }
  { destruct (byte_is re ix1 44); [cbn; lia|]. destruct (parse_decimal re ix1) as [[nx lo]|] eqn:E; [|exact I].
    cbn. destruct (parse_decimal_bnd rcs W _ _ _ E). lia. }
  intros [lo e1] He1 L2. cbn [snd] in *.
  eapply both_bind; [apply (ows_good rcs W); exact He1|apply ows_nf'; exact He1|]. intros ix2 Hix2 L3. cbv beta in L3.
  destruct (ix2 =? len); [exact I|].
  eapply (both_bind (fun r : N * nat => B (snd r)) (fun r : N * nat => ix2 <= snd r)).
  { destruct (byte_is re ix2 125) eqn:E125; [exact Hix2|]. destruct (byte_is re ix2 44) eqn:E44; [|cbn; pose proof (Ble _ Hix2); lia].
    apply (byte_is_true rcs) in E44. eapply (good_bind rcs); [apply (ows_good rcs W); eapply (asc1 rcs W); [exact E44|lia]|]. intros e2 He2.
    destruct (parse_decimal re e2) as [[nx hi]|] eqn:E; [|exact He2]. cbn. now apply (parse_decimal_bnd rcs W _ _ _ E). }
  { destruct (byte_is re ix2 125) eqn:E125; [cbn; lia|]. destruct (byte_is re ix2 44) eqn:E44; [|exact I].
    apply (byte_is_true rcs) in E44. pose proof (asc1 rcs W ix2 44 E44 ltac:(lia)) as B21.
    eapply both_bind; [apply (ows_good rcs W); exact B21|apply ows_nf'; exact B21|]. intros e2 He2 L4. cbv beta in L4.
    destruct (parse_decimal re e2) as [[nx hi]|] eqn:E; [|cbn; lia]. cbn. destruct (parse_decimal_bnd rcs W _ _ _ E). lia. }
  intros [hi e3] He3 L5. cbn [snd] in *.
  eapply both_bind; [apply (ows_good rcs W); exact He3|apply ows_nf'; exact He3|]. intros ix3 Hix3 L6. cbv beta in L6.
  destruct ((ix3 =? len) || negb (byte_is re ix3 125)); [exact I|]. cbn. lia.
Qed.

Lemma close_paren_nf fl ix : B ix -> nf (fun j => ix < j) (check_for_close_paren re fl ix).
Proof.
  intros Hb. unfold check_for_close_paren. eapply both_bind; [apply (ows_good rcs W); exact Hb|apply ows_nf'; exact Hb|].
  intros ix1 H1 L1. cbv beta in L1. destruct (ix1 =? len); [exact I|]. destruct (negb (byte_is re ix1 41)); [exact I|]. cbn. lia.
Qed.

(* ---------- the seven mutually recursive functions ---------- *)
Definition Phi (ix d : nat) : nat := (len - ix) + 6 * (64 - d).

Definition U_re f := forall st ix d, B ix -> d <= 64 -> Phi ix d + 5 <= f -> nf (P3lb ix) (parse_re re f st ix d).
Definition U_alt f := forall st ix d ch, B ix -> d <= 64 -> Phi ix d + 4 <= f -> nf (P3lb ix) (alt_loop re f st ix d ch).
Definition U_branch f := forall st ix d ch, B ix -> d <= 64 -> Phi ix d + 4 <= f -> nf (P3lb ix) (parse_branch re f st ix d ch).
Definition U_piece f := forall st ix d, B ix -> d <= 64 -> Phi ix d + 3 <= f -> nf (P3lb ix) (parse_piece re f st ix d).
Definition U_atom f := forall st ix d, B ix -> d <= 64 -> Phi ix d + 2 <= f -> nf (P3lb ix) (parse_atom re f st ix d).
Definition U_group f := forall st ix d, byte re ix = Some 40 -> d <= 64 -> Phi ix d + 1 <= f -> nf (P3lb ix) (parse_group re f st ix d).
Definition U_flags f := forall st ixq d start ix neg old, B ix -> start <= len -> d <= 64 -> Phi ix d + 5 <= f ->
  nf (P3lb ix) (parse_flags re f st ixq d start ix neg old).
Definition U_cond f := forall st ix d, B ix -> d <= 64 -> Phi ix d + 6 <= f -> nf (P3lb ix) (parse_conditional re f st ix d).

Section StepU.
Variable f : nat.
Hypothesis J_re : U_re f.
Hypothesis J_alt : U_alt f.
Hypothesis J_branch : U_branch f.
Hypothesis J_piece : U_piece f.
Hypothesis J_atom : U_atom f.
Hypothesis J_group : U_group f.
Hypothesis J_flags : U_flags f.
Hypothesis J_cond : U_cond f.

Let G_re : T_re rcs f := proj1 (parse_all_good rcs W f).
Let G_branch : T_branch rcs f := proj1 (proj2 (proj2 (parse_all_good rcs W f))).
Let G_piece : T_piece rcs f := proj1 (proj2 (proj2 (proj2 (parse_all_good rcs W f)))).
Let G_atom : T_atom rcs f := proj1 (proj2 (proj2 (proj2 (proj2 (parse_all_good rcs W f))))).

Ltac bb3 Lg Ln := eapply (both_bind P3ok); [apply Lg|apply Ln|intros [[?j ?x] ?s] [?Hj ?Hx] ?Lj; cbn [fst snd] in *].
Ltac bbI Lg Ln := eapply (both_bind B); [apply Lg|apply Ln|intros ?j ?Hj ?Lj; cbv beta in *].
Ltac le_len := repeat match goal with H : B ?k |- _ => lazymatch goal with _ : k <= len |- _ => fail | _ => pose proof (Ble k H) end end.

Lemma stepU_re : U_re (S f).
Proof.
  intros st ix d Hb Hd Hf. simpl parse_re. unfold Phi in *.
  bb3 G_branch J_branch; auto; [unfold Phi; lia|].
  bbI (ows_good rcs W) ows_nf'; auto.
  destruct (byte_is re j0 124).
  - wk (apply J_alt; [auto|auto|le_len; unfold Phi; lia]).
  - destruct (_ && _); [exact I|]. cbn. lia.
Qed.

Lemma stepU_alt : U_alt (S f).
Proof.
  intros st ix d ch Hb Hd Hf. simpl alt_loop. unfold Phi in *. destruct (byte_is re ix 124) eqn:E; [|cbn; lia].
  apply (byte_is_true rcs) in E. pose proof (asc1 rcs W ix 124 E ltac:(lia)) as B1. pose proof (byte_Some_lt rcs _ _ E).
  bb3 G_branch J_branch; auto; [unfold Phi; lia|].
  bbI (ows_good rcs W) ows_nf'; auto.
  wk (apply J_alt; [auto|auto|le_len; unfold Phi; lia]).
Qed.

Lemma stepU_branch : U_branch (S f).
Proof.
  intros st ix d ch Hb Hd Hf. simpl parse_branch. unfold Phi in *.
  destruct (Nat.ltb_spec ix len).
  - bb3 G_piece J_piece; auto; [unfold Phi; lia|]. destruct (Nat.eqb_spec j ix).
    + destruct ch as [|c [|c2 r]]; cbn; lia.
    + wk (apply J_branch; [auto|auto|le_len; unfold Phi; lia]).
  - destruct ch as [|c [|c2 r]]; cbn; lia.
Qed.

Lemma stepU_piece : U_piece (S f).
Proof.
  intros st ix d Hb Hd Hf. simpl parse_piece. unfold Phi in *.
  bb3 G_atom J_atom; auto; [unfold Phi; lia|]. rename j into ix0, x into child, s into st1.
  bbI (ows_good rcs W) ows_nf'; auto. rename j into ix1.
  assert (Hq : forall ixq lo hi, B (ixq + 1) -> ix <= ixq -> nf (P3lb ix)
    (if negb (is_repeatable child) then PErr ixq PTargetNotRepeatable else
     let! ix2 := optional_whitespace re (len + 2) (p_flags st1) (ixq + 1) in
     let '(greedy0, ix3) := if (ix2 <? len) && byte_is re ix2 63 then (false, ix2 + 1) else (true, ix2) in
     let greedy := xorb greedy0 (f_swap (p_flags st1)) in
     let node := Repeat child lo hi greedy in
     if (ix3 <? len) && byte_is re ix3 43 then POk (ix3 + 1, AtomicGroup node, st1)
     else POk (ix3, node, st1))).
  { intros ixq lo hi Hbq Hle. destruct (negb (is_repeatable child)); [exact I|].
    bbI (ows_good rcs W) ows_nf'; auto. rename j into ix2.
    destruct ((ix2 <? len) && byte_is re ix2 63); cbv beta iota zeta;
      match goal with |- nf _ (if ?c then _ else _) => destruct c end; cbn; lia. }
  destruct (Nat.ltb_spec ix1 len); [|cbn; lia].
  destruct (byte_lt rcs ix1 ltac:(lia)) as (b & Eb). rewrite Eb.
  destruct (Nat.eqb_spec b 63) as [->|]; [apply Hq; [eapply (asc1 rcs W); [exact Eb|lia]|lia]|].
  destruct (Nat.eqb_spec b 42) as [->|]; [apply Hq; [eapply (asc1 rcs W); [exact Eb|lia]|lia]|].
  destruct (Nat.eqb_spec b 43) as [->|]; [apply Hq; [eapply (asc1 rcs W); [exact Eb|lia]|lia]|].
  destruct (Nat.eqb_spec b 123) as [->|]; [|cbn; lia].
  pose proof (parse_repeat_good rcs W (p_flags st1) ix1 Eb) as Hr. pose proof (parse_repeat_nf (p_flags st1) ix1 Eb) as Hn.
  destruct (parse_repeat re (p_flags st1) ix1) as [[[nx lo] hi]| | | |]; cbn in Hr, Hn; try exact I; try (cbn; lia); try contradiction.
  destruct Hr as [Hr1 Hr2]. cbn [fst] in *. apply Hq; [now replace (nx - 1 + 1) with nx by lia|lia].
Qed.

Lemma stepU_atom : U_atom (S f).
Proof.
  intros st ix d Hb Hd Hf. simpl parse_atom. unfold Phi in *.
  bbI (ows_good rcs W) ows_nf'; auto. rename j into ix1. pose proof (Ble _ Hj).
  destruct (Nat.eqb_spec ix1 len); [cbn; lia|].
  destruct (byte_lt rcs ix1 ltac:(lia)) as (b & Eb). rewrite Eb.
  destruct (b =? 46); [cbn; lia|]. destruct (b =? 94); [cbn; lia|]. destruct (b =? 36); [cbn; lia|].
  destruct (Nat.eqb_spec b 40) as [->|]; [wk (apply J_group; [exact Eb|auto|unfold Phi; lia])|].
  destruct (Nat.eqb_spec b 92) as [->|]; [wk (apply parse_escape_nf; exact Eb)|].
  destruct (_ || _); [cbn; lia|].
  destruct (Nat.eqb_spec b 91) as [->|]; [wk (apply parse_class_nf; exact Eb)|].
  destruct (len <? ix1 + cp_len b); [exact I|]. cbn. lia.
Qed.

Lemma stepU_group : U_group (S f).
Proof.
  intros st ix d H40 Hd Hf. rewrite parse_group_S. cbv zeta. unfold Phi in *.
  pose proof (byte_Some_lt rcs _ _ H40) as Hlt. change Consts.MAX_RECURSION with 64.
  destruct (Nat.leb_spec 64 (d + 1)); [exact I|].
  pose proof (asc1 rcs W ix 40 H40 ltac:(lia)) as B1.
  bbI (ows_good rcs W) ows_nf'; auto. rename j into ix1. pose proof (Ble _ Hj).
  assert (Hbody : forall (node : expr -> expr) pos st0, B pos -> ix < pos -> nf (P3lb ix)
    (let! r1 := parse_re re f st0 pos (d + 1) in
     let '(ix2, child, st1) := r1 in
     let! ix3 := check_for_close_paren re (p_flags st1) ix2 in
     POk (ix3, node child, st1))).
  { intros node pos st0 Hp Hlp. pose proof (Ble _ Hp).
    bb3 G_re J_re; auto; [lia|unfold Phi; lia|]. bbI (close_paren_good rcs W) close_paren_nf; auto. cbn. lia. }
  assert (Hsw : forall pre j, starts_with (from re ix1) pre = true -> Forall (fun b => b < 128) pre -> 0 < j <= length pre -> B (ix1 + j))
    by (intros; eapply (sw_pos rcs W); eauto).
  repeat match goal with
  | |- nf _ (if starts_with (from (concat rcs) ix1) ?pre then _ else _) => destruct (starts_with (from (concat rcs) ix1) pre) eqn:?
  end.
  all: try (apply Hbody; [eapply Hsw; [eassumption|repeat constructor; lia|simpl; lia]|lia]; fail).
  all: try (wk (apply named_backref_nf); fail).
  - destruct (parse_id (from re (ix1 + 1)) [60] [62] false) as [[id skip]|] eqn:E; [|exact I].
    assert (B1' : B (ix1 + 1)) by (eapply Hsw; [eassumption|repeat constructor; lia|simpl; lia]).
    destruct (parse_id_bnd rcs W (ix1 + 1) [60] [62] false id skip B1' ltac:(repeat constructor; lia) ltac:(repeat constructor; lia) E) as [Hs _].
    apply Hbody; [now replace (ix1 + (skip + 1)) with (ix1 + 1 + skip) by lia|lia].
  - destruct (parse_id (from re (ix1 + 2)) [60] [62] false) as [[id skip]|] eqn:E; [|exact I].
    assert (B2 : B (ix1 + 2)) by (eapply Hsw; [eassumption|repeat constructor; lia|simpl; lia]).
    destruct (parse_id_bnd rcs W (ix1 + 2) [60] [62] false id skip B2 ltac:(repeat constructor; lia) ltac:(repeat constructor; lia) E) as [Hs _].
    apply Hbody; [now replace (ix1 + (skip + 2)) with (ix1 + 2 + skip) by lia|lia].
  - assert (B2 : B (ix1 + 2)) by (eapply Hsw; [eassumption|repeat constructor; lia|simpl; lia]). pose proof (Ble _ B2).
    wk (apply J_cond; [exact B2|lia|unfold Phi; lia]).
  - assert (B1' : B (ix1 + 1)) by (eapply Hsw; [eassumption|repeat constructor; lia|simpl; lia]). pose proof (Ble _ B1').
    wk (apply J_flags; [exact B1'|lia|lia|unfold Phi; lia]).
  - assert (Hp0 : B (ix1 + 0)) by (now rewrite Nat.add_0_r). apply Hbody; [exact Hp0|lia].
Qed.

Lemma stepU_flags : U_flags (S f).
Proof.
  intros st ixq d start ix neg old Hb Hstart Hd Hf. simpl parse_flags. unfold Phi in *.
  bbI (ows_good rcs W) ows_nf'; auto. rename j into ix1. pose proof (Ble _ Hj).
  destruct (Nat.eqb_spec ix1 len); [exact I|]. destruct (byte_lt rcs ix1 ltac:(lia)) as (b & Eb). rewrite Eb. cbv zeta.
  assert (Hunk : nf (P3lb ix) (if len <? ix1 + cp_len b then PPanic else PErr start PUnknownFlag))
    by (destruct (len <? ix1 + cp_len b); exact I).
  destruct ((b =? 105) || (b =? 109) || (b =? 115) || (b =? 85) || (b =? 120)) eqn:Ef.
  { assert (B (ix1 + 1)) by (eapply (asc1 rcs W); [exact Eb|]; repeat (apply orb_true_iff in Ef as [Ef|Ef]); apply Nat.eqb_eq in Ef; lia).
    wk (apply J_flags; [auto|exact Hstart|auto|le_len; unfold Phi; lia]). }
  destruct (Nat.eqb_spec b 117) as [->|].
  { destruct neg; [exact I|]. pose proof (asc1 rcs W ix1 117 Eb ltac:(lia)). wk (apply J_flags; [auto|exact Hstart|auto|le_len; unfold Phi; lia]). }
  destruct (Nat.eqb_spec b 45) as [->|].
  { destruct neg; [exact Hunk|]. pose proof (asc1 rcs W ix1 45 Eb ltac:(lia)). wk (apply J_flags; [auto|exact Hstart|auto|le_len; unfold Phi; lia]). }
  destruct (Nat.eqb_spec b 41) as [->|].
  { destruct ((ix1 =? start) || neg && (ix1 =? start + 1)); [exact Hunk|]. cbn. lia. }
  destruct (Nat.eqb_spec b 58) as [->|]; [|exact Hunk].
  destruct (neg && (ix1 =? start + 1)); [exact Hunk|].
  pose proof (asc1 rcs W ix1 58 Eb ltac:(lia)) as B1.
  bb3 G_re J_re; auto; [le_len; unfold Phi; lia|]. destruct (j =? len); [exact I|].
  destruct (negb (byte_is re j 41)); [exact I|]. cbn. lia.
Qed.

Lemma stepU_cond : U_cond (S f).
Proof.
  intros st ix d Hb Hd Hf. simpl parse_conditional. unfold Phi in *. pose proof (Ble _ Hb).
  destruct (Nat.leb_spec len ix); [exact I|]. destruct (byte_lt rcs ix ltac:(lia)) as (b & Eb). rewrite Eb.
  eapply (both_bind P3ok (P3lb ix)).
  { destruct (is_digit b); [apply (numbered_backref_good rcs W); [lia|intros; exact I]|].
    destruct (b =? 39); [apply (named_backref_good rcs W); auto; try (repeat constructor; lia); intros; exact I|].
    destruct (b =? 60); [apply (named_backref_good rcs W); auto; try (repeat constructor; lia); intros; exact I|].
    now apply G_re. }
  { destruct (is_digit b); [apply numbered_backref_nf|].
    destruct (b =? 39); [apply named_backref_nf|]. destruct (b =? 60); [apply named_backref_nf|].
    apply J_re; auto. unfold Phi; lia. }
  intros [[nx0 condition] st1] [H1 H2] L1. cbn [fst snd] in *.
  bbI (close_paren_good rcs W) close_paren_nf; auto. rename j into nx.
  bb3 G_re J_re; auto; [le_len; unfold Phi; lia|]. rename j into e, x into child, s into st2.
  destruct (e =? nx).
  - destruct condition; try exact I. bbI (close_paren_good rcs W) close_paren_nf; auto. cbn. lia.
  - destruct child as [| | | | |es| | | | | | | | | | |];
      try (bbI (close_paren_good rcs W) close_paren_nf; auto; cbn; lia).
    destruct es as [|a [|b2 [|c3 rest]]]; (bbI (close_paren_good rcs W) close_paren_nf; auto; cbn; lia).
Qed.
End StepU.

Lemma parse_all_nf : forall f, U_re f /\ U_alt f /\ U_branch f /\ U_piece f /\ U_atom f /\ U_group f /\ U_flags f /\ U_cond f.
Proof.
  induction f as [|f (I1 & I2 & I3 & I4 & I5 & I6 & I7 & I8)].
  - unfold U_re, U_alt, U_branch, U_piece, U_atom, U_group, U_flags, U_cond, Phi.
    split; [|split; [|split; [|split; [|split; [|split; [|split]]]]]]; intros; lia.
  - split; [now apply stepU_re|]. split; [now apply stepU_alt|]. split; [now apply stepU_branch|].
    split; [now apply stepU_piece|]. split; [now apply stepU_atom|]. split; [now apply stepU_group|].
    split; [now apply stepU_flags|now apply stepU_cond].
Qed.

Theorem parse_nf : parse re <> PFuel.
Proof.
  unfold parse. intros H.
  pose proof (proj1 (parse_all_nf (parse_fuel re)) pst0 0 0 (bnd_0 rcs) (Nat.le_0_l 64)) as Hn.
  assert (Hf : Phi 0 0 + 5 <= parse_fuel re) by (unfold Phi, parse_fuel; lia). specialize (Hn Hf).
  destruct (parse_re re (parse_fuel re) pst0 0 0) as [[[ix e] st]| | | |]; cbn [pbind nf] in *; try discriminate; try contradiction.
  match type of H with (if ?c then _ else _) = _ => destruct c end; discriminate.
Qed.

End Fuel.

(* the parser is total on valid UTF-8: it returns a tree, a parse error inside the pattern, or the
   "named backreference only" compile error - it neither panics nor runs out of fuel *)
Theorem parse_total re : valid_text re ->
  match parse re with
  | POk (e, _) => wfe e
  | PErr p _ => p <= length re
  | PNamedBackrefOnly => True
  | PPanic | PFuel => False
  end.
Proof.
  intros (cs & W & ->). pose proof (parse_good cs W) as G. pose proof (parse_nf cs W) as F.
  destruct (parse (concat cs)) as [[e st]| | | |]; cbn in *; auto.
Qed.
