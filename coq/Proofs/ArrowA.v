(* ArrowA.v — handing blocks to the automata engine does not change the search result.
   At the level of the reference semantics: the atomized tree (Proofs/Atomize.v), in which every
   block the compiler delegates is atomic, has the same first result as the tree itself.
   In a hard context the result list of the atomized tree is a PRUNING of the original list
   (Proofs/Prune.v); in a tail context (where only the first result is ever looked at) the heads
   agree.  Why delegated blocks may be cut to their first result: a constant-size easy block ends
   at ONE offset (C13), its results differ only in capture groups inside the block, those groups
   are not referenced by any backreference or condition (else the group would be hard), and what
   follows cannot tell two such states apart (parametricity, Proofs/Param.v). *)
From FR Require Import Base Utf8 Utf8Facts Chars Ast Analyze Sem ExprLemmas SemSound GoBack
                       Param Prune EasyBlock Scope Det Vm Compile Atomize CompileCorrect.
From Coq Require Import Lia NArith.

Section A.
Variable cs : list (list nat).
Hypothesis W : valid_chars cs.
Variable cx : ctx.
Hypothesis Htext : c_text cx = concat cs.
Hypothesis Hlen : (N.of_nat (length (concat cs)) < usize_max)%N.
Variable bs : N -> bool.
Variable fuel : nat.
Hypothesis Hfuel : length (concat cs) < fuel.

(* ---------- states that differ only in unreferenced groups ---------- *)
Definition refd (grp : N) : Prop := bs grp = true.
Definition eqr (A B : list val) : Prop :=
  length A = length B /\
  forall grp, refd grp -> nth_error A (2 * N.to_nat grp) = nth_error B (2 * N.to_nat grp) /\
                          nth_error A (2 * N.to_nat grp + 1) = nth_error B (2 * N.to_nat grp + 1).
Definition E : sst -> sst -> Prop := srel eqr.

Lemma eqr_refl A : eqr A A. Proof. split; auto. Qed.
Lemma eqr_sym A B : eqr A B -> eqr B A.
Proof. intros [L H]. split; [congruence|]. intros grp Hg. destruct (H grp Hg). split; congruence. Qed.
Lemma eqr_trans A B C : eqr A B -> eqr B C -> eqr A C.
Proof.
  intros [L1 H1] [L2 H2]. split; [congruence|]. intros grp Hg. destruct (H1 grp Hg), (H2 grp Hg). split; congruence.
Qed.
Lemma E_refl a : E a a. Proof. split; [reflexivity|apply eqr_refl]. Qed.
Lemma E_sym a b : E a b -> E b a. Proof. intros [H1 H2]. split; [congruence|now apply eqr_sym]. Qed.
Lemma E_trans a b c : E a b -> E b c -> E a c.
Proof. intros [H1 H2] [H3 H4]. split; [congruence|eapply eqr_trans; eauto]. Qed.

Lemma eqr_upd A B i x : True -> eqr A B -> eqr (upd A i (V x)) (upd B i (V x)).
Proof.
  intros _ [L H]. split; [now rewrite !upd_length|]. intros grp Hg. destruct (H grp Hg) as [H1 H2].
  rewrite !nth_error_upd, L. split.
  - destruct ((i =? 2 * N.to_nat grp) && (i <? length B)); auto.
  - destruct ((i =? 2 * N.to_nat grp + 1) && (i <? length B)); auto.
Qed.
Lemma eqr_read A B grp : refd grp -> eqr A B ->
  getcap A (2 * N.to_nat grp) = getcap B (2 * N.to_nat grp) /\
  getcap A (2 * N.to_nat grp + 1) = getcap B (2 * N.to_nat grp + 1).
Proof. intros Hg [L H]. destruct (H grp Hg) as [H1 H2]. unfold getcap. now rewrite H1, H2. Qed.

Notation rok := (refs_ok True refd).

(* what follows a block cannot tell equivalent states apart *)
Lemma par e : rok e -> forall g a b, E a b -> Forall2 E (sem cx e fuel g a) (sem cx e fuel g b).
Proof.
  intros Hr g a b Hab.
  apply (param cx eqr (fun _ => True) eqr_upd True (fun _ => I) refd eqr_read e Hr fuel g a b); auto.
  intros h Hh. auto.
Qed.

Lemma Forall2_len {X Y} (R : X -> Y -> Prop) l1 l2 : Forall2 R l1 l2 -> length l1 = length l2.
Proof. induction 1; cbn; auto. Qed.

Lemma par_nil e : rok e -> forall g a b, E a b -> sem cx e fuel g a = [] -> sem cx e fuel g b = [].
Proof.
  intros Hr g a b Hab Ha. pose proof (par e Hr g a b Hab) as H. rewrite Ha in H. inversion H. reflexivity.
Qed.

(* ---------- frames: an easy expression only touches the slots of its own groups ---------- *)
Definition frm (g n : nat) (A A' : list val) : Prop :=
  length A' = length A /\ forall i, i < 2 * g \/ 2 * (g + n) <= i -> nth_error A' i = nth_error A i.
Lemma frm_refl g n A : frm g n A A. Proof. split; auto. Qed.
Lemma frm_widen g n g' n' A A' : g' <= g -> g + n <= g' + n' -> frm g n A A' -> frm g' n' A A'.
Proof. intros H1 H2 [L F]. split; auto. intros i Hi. apply F. lia. Qed.
Lemma frm_trans g n A B C : frm g n A B -> frm g n B C -> frm g n A C.
Proof. intros [L1 F1] [L2 F2]. split; [congruence|]. intros i Hi. rewrite F2, F1; auto. Qed.

Lemma easy_frame : forall e, easyx e = true -> forall g ix A st',
  In st' (sem cx e fuel g (ix, A)) -> frm g (ngroups e) A (snd st').
Proof.
  induction e using expr_ind'; intros He g0 ix A st' Hin; try discriminate.
  - cbn [sem] in Hin. destruct Hin as [<-|[]]. apply frm_refl.
  - cbn [sem] in Hin. destruct (nth_error (c_text cx) ix); [|destruct Hin]. destruct (nl || negb (n =? 10)); [|destruct Hin].
    destruct Hin as [<-|[]]. apply frm_refl.
  - cbn [sem] in Hin. destruct (assert_holds cx a ix); [|destruct Hin]. destruct Hin as [<-|[]]. apply frm_refl.
  - cbn [sem] in Hin. destruct c.
    + destruct (lit_ci cx _ ix); [|destruct Hin]. destruct Hin as [<-|[]]. apply frm_refl.
    + destruct (lit_at _ ix v); [|destruct Hin]. destruct Hin as [<-|[]]. apply frm_refl.
  - rewrite easyx_concat in He. rewrite sem_concat_eq in Hin. rewrite ngroups_concat.
    revert g0 ix A st' Hin. induction H as [|x r Hx Hr IH]; intros g0 ix A st' Hin; cbn [sem_cat] in Hin.
    + destruct Hin as [<-|[]]. apply frm_refl.
    + cbn [forallb] in He. apply andb_true_iff in He as [He1 He2].
      change (ngroups_list (x :: r)) with (ngroups x + ngroups_list r).
      apply in_flat_map in Hin as ([ix1 A1] & H1 & H2).
      pose proof (Hx He1 g0 ix A _ H1) as T1. cbn [snd] in T1.
      pose proof (IH He2 (g0 + ngroups x) ix1 A1 st' H2) as T2.
      eapply frm_trans; [eapply frm_widen; [| |exact T1]; lia|eapply frm_widen; [| |exact T2]; lia].
  - rewrite easyx_alt in He. rewrite sem_alt_eq in Hin. rewrite ngroups_alt.
    revert g0 Hin. induction H as [|x r Hx Hr IH]; intros g0 Hin; cbn [sem_alts] in Hin; [destruct Hin|].
    cbn [forallb] in He. apply andb_true_iff in He as [He1 He2].
    change (ngroups_list (x :: r)) with (ngroups x + ngroups_list r).
    apply in_app_or in Hin as [Hin|Hin].
    + eapply frm_widen; [| |exact (Hx He1 g0 ix A st' Hin)]; lia.
    + eapply frm_widen; [| |exact (IH He2 (g0 + ngroups x) Hin)]; lia.
  - cbn [easyx] in He. cbn [sem] in Hin. cbn [ngroups]. apply in_map_iff in Hin as ([ix2 A2] & <- & H2).
    pose proof (IHe He (S g0) ix (upd A (2 * g0) (V ix)) _ H2) as [L F]. cbn [fst snd] in *. rewrite upd_length in L.
    split; [rewrite upd_length; exact L|]. intros i Hi.
    rewrite nth_error_upd. destruct (Nat.eqb_spec (2 * g0 + 1) i); [lia|]. cbn [andb].
    rewrite F by lia. rewrite nth_error_upd. destruct (Nat.eqb_spec (2 * g0) i); [lia|]. reflexivity.
  - cbn [easyx] in He. cbn [sem] in Hin. cbn [ngroups].
    set (T := fun a b : sst => frm g0 (ngroups e) (snd a) (snd b)).
    assert (Tr : forall s, T s s) by (intros s; apply frm_refl).
    assert (Tt : forall a b c, T a b -> T b c -> T a c) by (intros a b c; apply frm_trans).
    assert (Hb : forall s s', In s' (sem cx e fuel g0 s) -> T s s').
    { intros [i1 A1] s' Hi. exact (IHe He g0 i1 A1 s' Hi). }
    apply in_flat_map in Hin as (s1 & H1 & H2).
    pose proof (rep_must_T _ T Tr Tt Hb _ _ _ H1) as T1.
    assert (T2 : T s1 st').
    { destruct (N.eqb hi usize_max); [eapply rep_opt_u_T|eapply rep_opt_b_T]; eauto. }
    exact (Tt _ _ _ T1 T2).
  - destruct k; cbn [sem] in Hin.
    + destruct (decode_at (c_text cx) ix) as [[cp len]|]; [|destruct Hin]. destruct (existsb _ cps); [|destruct Hin].
      destruct Hin as [<-|[]]. apply frm_refl.
    + destruct ((ix <=? length (c_text cx)) && only_newlines_from cx ix); [|destruct Hin]. destruct Hin as [<-|[]]. apply frm_refl.
  - cbn [sem] in Hin. destruct Hin.
Qed.

(* the groups of an easy expression are not referenced *)
Lemma hard_groups : forall e g, hard bs g e = false -> forall h, g <= h < g + ngroups e -> bs (N.of_nat h) = false.
Proof.
  induction e using expr_ind'; intros g0 Hh h Hr; try discriminate; try (cbn [ngroups] in Hr; lia).
  - rewrite hard_concat in Hh. rewrite ngroups_concat in Hr. revert g0 Hh Hr.
    induction H as [|x r Hx Hrr IH]; intros g0 Hh Hr; [cbn in Hr; lia|].
    cbn [hard_list] in Hh. apply orb_false_iff in Hh as [H1 H2].
    change (ngroups_list (x :: r)) with (ngroups x + ngroups_list r) in Hr.
    destruct (Nat.lt_ge_cases h (g0 + ngroups x)); [eapply Hx; eauto; lia|eapply IH; eauto; lia].
  - rewrite hard_alt in Hh. rewrite ngroups_alt in Hr. revert g0 Hh Hr.
    induction H as [|x r Hx Hrr IH]; intros g0 Hh Hr; [cbn in Hr; lia|].
    cbn [hard_list] in Hh. apply orb_false_iff in Hh as [H1 H2].
    change (ngroups_list (x :: r)) with (ngroups x + ngroups_list r) in Hr.
    destruct (Nat.lt_ge_cases h (g0 + ngroups x)); [eapply Hx; eauto; lia|eapply IH; eauto; lia].
  - cbn [hard] in Hh. cbn [ngroups] in Hr. apply orb_false_iff in Hh as [H1 H2].
    destruct (Nat.eq_dec h g0) as [->|Hne]; [exact H2|]. eapply IHe; eauto. lia.
  - cbn [hard] in Hh. cbn [ngroups] in Hr. apply orb_false_iff in Hh as [Hh _]. eapply IHe; eauto.
Qed.

(* ---------- delegated blocks ---------- *)
Fixpoint easy_at (g : nat) (l : list expr) : Prop :=
  match l with [] => True | x :: r => hard bs g x = false /\ easy_at (g + ngroups x) r end.

Lemma easy_at_easyx : forall l g, easy_at g l -> forallb easyx l = true.
Proof. induction l as [|x r IH]; intros g H; [reflexivity|]. destruct H as [H1 H2]. cbn [forallb]. now rewrite (hard_easyx bs x g H1), (IH _ H2). Qed.

Lemma easy_at_groups : forall l g, easy_at g l -> forall h, g <= h < g + ngroups_list l -> bs (N.of_nat h) = false.
Proof.
  induction l as [|x r IH]; intros g H h Hh; [cbn in Hh; lia|]. destruct H as [H1 H2].
  change (ngroups_list (x :: r)) with (ngroups x + ngroups_list r) in Hh.
  destruct (Nat.lt_ge_cases h (g + ngroups x)); [eapply hard_groups; eauto; lia|eapply IH; eauto; lia].
Qed.

Notation sok := (st_ok cs).
Lemma ok_sem e g st st' : wfe e -> sok st -> In st' (sem cx e fuel g st) -> sok st'.
Proof. apply (sem_ok cs W cx Htext Hlen). Qed.
Lemma ok_sem_cat l g st st' : wfe_list l -> sok st -> In st' (sem_cat cx fuel g l st) -> sok st'.
Proof. apply (sem_cat_ok cs W cx Htext Hlen). Qed.
Lemma ok_all e g st : wfe e -> sok st -> Forall sok (sem cx e fuel g st).
Proof. intros Hw Hs. apply Forall_forall. intros x Hx. eapply ok_sem; eauto. Qed.
Lemma ok_all_cat l g st : wfe_list l -> sok st -> Forall sok (sem_cat cx fuel g l st).
Proof. intros Hw Hs. apply Forall_forall. intros x Hx. eapply ok_sem_cat; eauto. Qed.

(* all results of a constant-size easy block are equivalent *)
Lemma block_equiv l g st : easy_at g l -> const_cat l = true -> wfe_list l -> zok_list l -> sok st ->
  forall x y, In x (sem_cat cx fuel g l st) -> In y (sem_cat cx fuel g l st) -> E x y.
Proof.
  intros He Hc Hw Hz Hs x y Hx Hy.
  assert (Hwc : wfe (Concat l)) by now rewrite wfe_concat.
  assert (Hzc : zok (Concat l)) by now rewrite zok_concat.
  assert (Hcc : const_size (Concat l) = true) by now rewrite const_concat.
  rewrite <- sem_concat_eq in Hx, Hy.
  destruct (sem_sound cs W cx Htext Hlen (Concat l) Hwc fuel g st x Hs Hx) as (n1 & [_ D1] & _ & X1).
  destruct (sem_sound cs W cx Htext Hlen (Concat l) Hwc fuel g st y Hs Hy) as (n2 & [_ D2] & _ & X2).
  specialize (X1 Hzc Hcc). specialize (X2 Hzc Hcc). assert (n1 = n2) by lia. subst n2.
  assert (Hex : easyx (Concat l) = true) by (rewrite easyx_concat; eapply easy_at_easyx; eauto).
  destruct st as [ix A].
  pose proof (easy_frame (Concat l) Hex g ix A x Hx) as [L1 F1].
  pose proof (easy_frame (Concat l) Hex g ix A y Hy) as [L2 F2].
  rewrite ngroups_concat in F1, F2.
  split; [eapply dist_fun; eauto|]. split; [congruence|]. intros grp Hg.
  assert (Hout : N.to_nat grp < g \/ g + ngroups_list l <= N.to_nat grp).
  { destruct (Nat.lt_ge_cases (N.to_nat grp) g); auto. destruct (Nat.lt_ge_cases (N.to_nat grp) (g + ngroups_list l)); auto.
    exfalso. pose proof (easy_at_groups l g He (N.to_nat grp) ltac:(lia)) as Hb. rewrite N2Nat.id in Hb.
    unfold refd in Hg. congruence. }
  rewrite !F1, !F2 by lia. auto.
Qed.

(* a delegated block: wrapA *)
Lemma sem_cat_wrap g A st : sem_cat cx fuel g (wrapA A) st =
  match A with [] => [st] | _ => firstn 1 (sem_cat cx fuel g A st) end.
Proof. apply sem_cat_wrapA. Qed.

Lemma prune_block g A st : easy_at g A -> const_cat A = true -> wfe_list A -> zok_list A -> sok st ->
  prune sst E (sem_cat cx fuel g (wrapA A) st) (sem_cat cx fuel g A st).
Proof.
  intros He Hc Hw Hz Hs. rewrite sem_cat_wrap. destruct A as [|a A']; [apply prune_refl|].
  apply prune_first. intros x y Hx Hy. eapply block_equiv; eauto.
Qed.

Lemma hd_block g A st : hdrel sst (sem_cat cx fuel g (wrapA A) st) (sem_cat cx fuel g A st).
Proof. rewrite sem_cat_wrap. destruct A as [|a A']; [reflexivity|]. apply hdrel_firstn1. Qed.

(* what the compiler's split guarantees about the prefix and the suffix *)
Lemma prefix_props : forall es g, easy_at g (firstn (prefix_count bs g es) es) /\
                                  const_cat (firstn (prefix_count bs g es) es) = true.
Proof.
  unfold prefix_count. induction es as [|x r IH]; intros g; [split; [exact I|reflexivity]|].
  destruct (const_size x && negb (hard bs g x)) eqn:Ex; [|split; [exact I|reflexivity]].
  apply andb_true_iff in Ex as [E1 E2]. apply negb_true_iff in E2. destruct (IH (g + ngroups x)) as [H1 H2].
  cbn [firstn easy_at const_cat]. split; [split; auto|]. now rewrite E1, H2.
Qed.

Lemma pairs_easy : forall l g (f : expr * nat -> bool),
  (forall p, f p = true -> hard bs (snd p) (fst p) = false) ->
  forallb f (with_groups g l) = true -> easy_at g l.
Proof.
  induction l as [|x r IH]; intros g f Hf H; [exact I|]. cbn [with_groups forallb] in H.
  apply andb_true_iff in H as [H1 H2]. split; [exact (Hf (x, g) H1)|]. eapply IH; eauto.
Qed.
Lemma pairs_const : forall l g (f : expr * nat -> bool),
  (forall p, f p = true -> const_size (fst p) = true) ->
  forallb f (with_groups g l) = true -> const_cat l = true.
Proof.
  induction l as [|x r IH]; intros g f Hf H; [reflexivity|]. cbn [with_groups forallb] in H.
  apply andb_true_iff in H as [H1 H2]. cbn [const_cat]. pose proof (Hf (x, g) H1) as Hx. cbn [fst] in Hx. rewrite Hx. eapply IH; eauto.
Qed.

(* small list facts (local copies, free of the compiler-correctness section's parameters) *)
Lemma twc_le {X} (f : X -> bool) l : take_while_count f l <= length l.
Proof. induction l; simpl; auto. destruct (f a); lia. Qed.
Lemma wg_length : forall es g, length (with_groups g es) = length es.
Proof. induction es; intros; simpl; auto. Qed.
Lemma skipn_wg : forall a g c, skipn (length a) (with_groups g (a ++ c)) = with_groups (g + ngroups_list a) c.
Proof.
  induction a as [|x a IH]; intros g c; cbn [app length skipn with_groups].
  - unfold ngroups_list. cbn. now rewrite Nat.add_0_r.
  - rewrite IH. change (ngroups_list (x :: a)) with (ngroups x + ngroups_list a). f_equal. lia.
Qed.
Lemma twc_rev' {X} (f : X -> bool) : forall m,
  forallb f (skipn (length m - take_while_count f m) (rev m)) = true.
Proof.
  induction m as [|a m IH]; [reflexivity|]. cbn [take_while_count rev length]. destruct (f a) eqn:Ea.
  - replace (S (length m) - S (take_while_count f m)) with (length m - take_while_count f m) by lia.
    rewrite skipn_app. rewrite forallb_app, IH. cbn [andb].
    rewrite rev_length. pose proof (twc_le f m).
    replace (length m - take_while_count f m - length m) with 0 by lia. cbn. now rewrite Ea.
  - rewrite Nat.sub_0_r. replace (S (length m)) with (length (rev m ++ [a])) by (rewrite app_length, rev_length; cbn; lia).
    now rewrite skipn_all.
Qed.
Lemma twc_rev {X} (f : X -> bool) l : forallb f (skipn (length l - take_while_count f (rev l)) l) = true.
Proof. pose proof (twc_rev' f (rev l)) as H. now rewrite rev_involutive, rev_length in H. Qed.

Lemma suffix_props hc es g :
  let pe := cat_pe bs g es in let sb := cat_sb bs hc g es in
  easy_at (g + ngroups_list (firstn sb es)) (skipn sb es) /\
  (hc = true -> const_cat (skipn sb es) = true).
Proof.
  intros pe sb. pose proof (cat_bounds bs hc g es) as Hb. fold pe sb in Hb.
  unfold cat_sb in sb. cbv zeta in sb. fold (cat_pe bs g es) in sb. fold pe in sb.
  set (kids := with_groups g es) in *.
  set (f1 := fun p : expr * nat => const_size (fst p) && negb (hard bs (snd p) (fst p))) in *.
  set (f2 := fun p : expr * nat => negb (hard bs (snd p) (fst p))) in *.
  assert (Hk : skipn sb kids = with_groups (g + ngroups_list (firstn sb es)) (skipn sb es)).
  { unfold kids. rewrite <- (firstn_skipn sb es) at 1.
    replace sb with (length (firstn sb es)) at 1 by (apply firstn_length_le; lia). apply skipn_wg. }
  assert (Hgen : forall f : expr * nat -> bool,
            sb = length es - take_while_count f (rev (skipn pe kids)) -> forallb f (skipn sb kids) = true).
  { intros f Esb. pose proof (twc_rev f (skipn pe kids)) as Ht. rewrite skipn_add in Ht.
    rewrite skipn_length in Ht. unfold kids in Ht at 1. rewrite wg_length in Ht.
    pose proof (twc_le f (rev (skipn pe kids))) as Hle. rewrite rev_length, skipn_length in Hle.
    unfold kids in Hle at 2. rewrite wg_length in Hle.
    replace (pe + (length es - pe - take_while_count f (rev (skipn pe kids)))) with sb in Ht by lia. exact Ht. }
  destruct hc.
  - pose proof (Hgen f1 eq_refl) as Hf. rewrite Hk in Hf. split.
    + eapply pairs_easy; [|exact Hf]. intros p Hp. unfold f1 in Hp. apply andb_true_iff in Hp as [_ Hp]. now apply negb_true_iff in Hp.
    + intros _. eapply pairs_const; [|exact Hf]. intros p Hp. unfold f1 in Hp. now apply andb_true_iff in Hp as [Hp _].
  - pose proof (Hgen f2 eq_refl) as Hf. rewrite Hk in Hf. split; [|discriminate].
    eapply pairs_easy; [|exact Hf]. intros p Hp. unfold f2 in Hp. now apply negb_true_iff in Hp.
Qed.

(* every look-behind body is constant-size, or an alternation of constant-size alternatives
   (otherwise the pattern does not compile: CLookBehindNotConst) *)
Fixpoint lbc (e : expr) : Prop :=
  match e with
  | LookAround c la =>
      lbc c /\ (is_behind la = true ->
                zok c /\       (* the \Z helper only under a look-ahead *)
                (const_size c = true \/ exists es, c = Alt es /\ Forall (fun x => const_size x = true) es))
  | Concat es | Alt es => (fix go (l : list expr) : Prop := match l with [] => True | x :: r => lbc x /\ go r end) es
  | Group c | Repeat c _ _ _ | AtomicGroup c => lbc c
  | Conditional c y n => lbc c /\ lbc y /\ lbc n
  | _ => True
  end.
Fixpoint lbc_list (l : list expr) : Prop := match l with [] => True | x :: r => lbc x /\ lbc_list r end.
Lemma lbc_concat es : lbc (Concat es) = lbc_list es. Proof. induction es; simpl in *; congruence. Qed.
Lemma lbc_alt es : lbc (Alt es) = lbc_list es. Proof. induction es; simpl in *; congruence. Qed.

(* ---------- the two statements ---------- *)
Notation Prn := (prune sst E).
Notation Hd := (hdrel sst).
Definition pbind := prune_bind sst E E_refl E_trans.
Definition pweak := prune_weaken sst E E_refl E_trans.

Definition preA (e : expr) : Prop := wfe e /\ zok e /\ rok e /\ lbc e.

Definition AH (e : expr) : Prop := preA e -> forall g st, sok st ->
  Prn (sem cx (atomize bs e g true) fuel g st) (sem cx e fuel g st).
Definition AT (e : expr) : Prop := preA e -> forall g st, sok st ->
  Hd (sem cx (atomize bs e g false) fuel g st) (sem cx e fuel g st).

Lemma kn e g hc : ngroups (atomize bs e g hc) = ngroups e. Proof. apply (atomize_keeps bs e g hc). Qed.
Lemma kw e g hc : wfe e -> wfe (atomize bs e g hc). Proof. apply (atomize_keeps bs e g hc). Qed.
Lemma kz e g hc : zok e -> zok (atomize bs e g hc). Proof. apply (atomize_keeps bs e g hc). Qed.
Lemma km e g hc : min_size (atomize bs e g hc) = min_size e. Proof. apply (atomize_keeps bs e g hc). Qed.
Lemma kc e g hc : const_size (atomize bs e g hc) = const_size e. Proof. apply (atomize_keeps bs e g hc). Qed.

Lemma Prn_app a' a b' b : Prn a' a -> Prn b' b -> Prn (a' ++ b') (a ++ b).
Proof. intros H1 H2. apply prune_app; [exact H1|]. eapply pweak; [exact H2|]. intros x []. Qed.

Lemma par_cat l : refs_ok_list True refd l -> forall g a b, E a b ->
  Forall2 E (sem_cat cx fuel g l a) (sem_cat cx fuel g l b).
Proof.
  intros Hr g a b Hab. rewrite <- !sem_concat_eq. apply par; auto; try now rewrite refs_ok_concat.
Qed.

(* the hard middle children of a concatenation *)
Lemma prune_cat : forall B, Forall AH B -> wfe_list B -> zok_list B -> refs_ok_list True refd B -> lbc_list B ->
  forall g st, sok st -> Prn (sem_cat cx fuel g (atom_list bs true g B) st) (sem_cat cx fuel g B st).
Proof.
  induction 1 as [|x r Hx Hr IH]; intros Hw Hz Hrf Hlb g st Hs; [apply prune_refl|].
  destruct Hw as [Hwx Hwr]. destruct Hz as [Hzx Hzr]. destruct Hrf as [Hrx Hrr]. destruct Hlb as [Hlx Hlr].
  cbn [atom_list sem_cat]. rewrite kn.
  eapply (pbind _ _ sok).
  - intros s1 Hs1. apply IH; auto.
  - intros a b Hab. apply par_cat; auto.
  - apply Hx; auto. repeat split; auto.
  - apply ok_all; auto.
Qed.

(* ---------- repetition ---------- *)
Section RepA.
Variables body' body : sst -> list sst.
Hypothesis Hb : forall s, sok s -> Prn (body' s) (body s).
Hypothesis Hpar : forall a b, E a b -> Forall2 E (body a) (body b).
Hypothesis Hok : forall s s', sok s -> In s' (body s) -> sok s'.

Lemma ok_body s : sok s -> Forall sok (body s).
Proof. intros Hs. apply Forall_forall. intros x Hx. eapply Hok; eauto. Qed.

Lemma prune_rep_must : forall n s, sok s -> Prn (rep_must body' n s) (rep_must body n s).
Proof.
  induction n as [|n IH]; intros s Hs; cbn [rep_must]; [apply prune_refl|].
  eapply (pbind _ _ sok); [intros; now apply IH| |now apply Hb|now apply ok_body].
  intros a b Hab. apply (rep_must_rel eqr body body Hpar n a b Hab).
Qed.

Lemma ok_rep_must : forall n s s', sok s -> In s' (rep_must body n s) -> sok s'.
Proof.
  induction n as [|n IH]; intros s s' Hs Hin; cbn [rep_must] in Hin.
  - destruct Hin as [<-|[]]; auto.
  - apply in_flat_map in Hin as (s1 & H1 & H2). eapply IH; [|exact H2]. eapply Hok; eauto.
Qed.

Lemma prune_rep_opt_b gr : forall m s, sok s -> Prn (rep_opt_b body' gr m s) (rep_opt_b body gr m s).
Proof.
  induction m as [|m IH]; intros s Hs; cbn [rep_opt_b]; [apply prune_refl|].
  assert (Hm : Prn (flat_map (rep_opt_b body' gr m) (body' s)) (flat_map (rep_opt_b body gr m) (body s))).
  { eapply (pbind _ _ sok); [intros; now apply IH| |now apply Hb|now apply ok_body].
    intros a b Hab. apply (rep_opt_b_rel eqr body body Hpar gr m a b Hab). }
  destruct gr.
  - apply Prn_app; [exact Hm|apply prune_refl].
  - apply pr_keep. eapply pweak; [exact Hm|]. intros x [].
Qed.

Lemma prune_rep_opt_u gr : forall f s, sok s -> Prn (rep_opt_u body' gr f s) (rep_opt_u body gr f s).
Proof.
  induction f as [|f IH]; intros s Hs; cbn [rep_opt_u]; [apply prune_refl|].
  assert (Hm : Prn (flat_map (fun s' => if fst s' =? fst s then [] else rep_opt_u body' gr f s') (body' s))
                   (flat_map (fun s' => if fst s' =? fst s then [] else rep_opt_u body gr f s') (body s))).
  { eapply (pbind _ _ sok); [| |now apply Hb|now apply ok_body].
    - intros x Hx. destruct (fst x =? fst s); [apply prune_refl|now apply IH].
    - intros a b Hab. destruct Hab as [H1 H2]. rewrite H1. destruct (fst b =? fst s); [constructor|].
      apply (rep_opt_u_rel eqr body body Hpar gr f a b). split; auto. }
  destruct gr.
  - apply Prn_app; [exact Hm|apply prune_refl].
  - apply pr_keep. eapply pweak; [exact Hm|]. intros x [].
Qed.
End RepA.

(* ---------- look-arounds: the atomized tree gives the SAME result list ---------- *)
Lemma firstn1_of_hd {X} (l' l : list X) : hd_error l' = hd_error l -> firstn 1 l' = firstn 1 l.
Proof. destruct l', l; cbn; intros H; try discriminate; auto. inversion H; reflexivity. Qed.
Lemma nil_of_hd {X} (l' l : list X) : hd_error l' = hd_error l -> (l' = [] <-> l = []).
Proof. destruct l', l; cbn; intros H; try discriminate; split; intros; auto; discriminate. Qed.

Lemma la_ahead c g st : AT c -> preA c -> sok st ->
  sem cx (LookAround (atomize bs c g false) LookAhead) fuel g st = sem cx (LookAround c LookAhead) fuel g st /\
  sem cx (LookAround (atomize bs c g false) LookAheadNeg) fuel g st = sem cx (LookAround c LookAheadNeg) fuel g st.
Proof.
  intros Hc Hp Hs. specialize (Hc Hp g st Hs). unfold hdrel in Hc. destruct st as [ix cp]. cbn [sem]. split.
  - now rewrite (firstn1_of_hd _ _ Hc).
  - destruct (sem cx (atomize bs c g false) fuel g (ix, cp)), (sem cx c fuel g (ix, cp)); cbn in Hc; auto; discriminate.
Qed.

Lemma la_behind_const c g st la : AT c -> preA c -> const_size c = true -> sok st -> is_behind la = true ->
  sem cx (LookAround (atomize bs c g false) la) fuel g st = sem cx (LookAround c la) fuel g st.
Proof.
  intros Hc (Hw & Hz & Hr & Hl) Hcs Hs Hb.
  assert (S1 := sem_la_eq cs W cx Htext Hlen 2 (le_n _) fuel Hfuel (atomize bs c g false) la g st
                  (kw c g false Hw) (fun _ => kz c g false Hz) Hs).
  assert (S2 := sem_la_eq cs W cx Htext Hlen 2 (le_n _) fuel Hfuel c la g st Hw (fun _ => Hz) Hs).
  rewrite S1 by (destruct la; auto; now rewrite kc). rewrite S2 by (destruct la; auto). clear S1 S2.
  assert (Hf : forall l' l : list sst, hd_error l' = hd_error l ->
            map (fun s' : sst => (fst st, snd s')) (firstn 1 l') = map (fun s' => (fst st, snd s')) (firstn 1 l) /\
            (match l' with [] => [st] | _ => [] end) = (match l with [] => [st] | _ => [] end)).
  { intros l' l H. split; [now rewrite (firstn1_of_hd _ _ H)|]. destruct l', l; cbn in H; auto; discriminate. }
  assert (Hla : hd_error (la_f cx fuel la (atomize bs c g false) g st) = hd_error (la_f cx fuel la c g st)).
  { assert (Hg : hd_error (match goback cx (fst st) (min_size c) (fst st) with
                            | GBOk j => sem cx (atomize bs c g false) fuel g (j, snd st) | _ => [] end) =
                 hd_error (match goback cx (fst st) (min_size c) (fst st) with
                            | GBOk j => sem cx c fuel g (j, snd st) | _ => [] end)).
    { pose proof (goback_sound cs W cx Htext (fst st) (min_size c) (fst st) (proj1 Hs) (le_n _)) as Gs.
      destruct (goback cx (fst st) (min_size c) (fst st)) as [j| |]; auto.
      destruct Gs as (n0 & _ & D0). destruct (dist_bnd cs W _ _ _ D0) as (Bj & _ & _).
      apply (Hc (conj Hw (conj Hz (conj Hr Hl))) g (j, snd st)). split; [exact Bj|apply Hs]. }
    destruct la; try discriminate; cbn [la_f]; rewrite km; exact Hg. }
  destruct (Hf _ _ Hla) as [H1 H2]. destruct la; try discriminate; auto.
Qed.

(* look-behind over alternatives of different lengths: alternative by alternative *)
Lemma atom_wfe : forall l gx, wfe_list l -> wfe_list (atom_list bs false gx l).
Proof. induction l as [|x r IH]; intros gx H; [exact I|]. destruct H. split; [now apply kw|now apply IH]. Qed.
Lemma atom_zok : forall l gx, zok_list l -> zok_list (atom_list bs false gx l).
Proof. induction l as [|x r IH]; intros gx H; [exact I|]. destruct H. split; [now apply kz|now apply IH]. Qed.
Lemma atom_const : forall l gx x', Forall (fun x => const_size x = true) l -> In x' (atom_list bs false gx l) -> const_size x' = true.
Proof.
  induction l as [|x r IH]; intros gx x' H Hin; [destruct Hin|]. apply Forall_cons_iff in H as [H1 H2].
  cbn [atom_list] in Hin. destruct Hin as [<-|Hin]; [now rewrite kc|eapply IH; eauto].
Qed.

Lemma gsem_alts_atom la : is_behind la = true -> forall l, Forall AT l -> wfe_list l -> zok_list l ->
  refs_ok_list True refd l -> lbc_list l -> Forall (fun x => const_size x = true) l -> forall g st, sok st ->
  gsem_alts (fun x' gx s => sem cx (LookAround x' la) fuel gx s) g (atom_list bs false g l) st =
  gsem_alts (fun x gx s => sem cx (LookAround x la) fuel gx s) g l st.
Proof.
  intros Hb. induction l as [|x r IH]; intros HA Hwl Hzl Hrl Hll Hcl g st Hs; [reflexivity|].
  apply Forall_cons_iff in HA as [HA1 HA2]. destruct Hwl as [W1 W2]. destruct Hzl as [Z1 Z2]. destruct Hrl as [R1 R2].
  destruct Hll as [L1 L2]. apply Forall_cons_iff in Hcl as [C1 C2].
  cbn [atom_list gsem_alts]. rewrite kn. rewrite IH by auto.
  rewrite (la_behind_const x g st la HA1); auto. repeat split; auto.
Qed.

Lemma gsem_seq_atom la : is_behind la = true -> forall l, Forall AT l -> wfe_list l -> zok_list l ->
  refs_ok_list True refd l -> lbc_list l -> Forall (fun x => const_size x = true) l -> forall g st, sok st ->
  gsem_seq (fun x' gx s => sem cx (LookAround x' la) fuel gx s) g (atom_list bs false g l) st =
  gsem_seq (fun x gx s => sem cx (LookAround x la) fuel gx s) g l st.
Proof.
  intros Hb. induction l as [|x r IH]; intros HA Hwl Hzl Hrl Hll Hcl g st Hs; [reflexivity|].
  apply Forall_cons_iff in HA as [HA1 HA2]. destruct Hwl as [W1 W2]. destruct Hzl as [Z1 Z2]. destruct Hrl as [R1 R2].
  destruct Hll as [L1 L2]. apply Forall_cons_iff in Hcl as [C1 C2].
  cbn [atom_list gsem_seq]. rewrite kn.
  rewrite (la_behind_const x g st la HA1); auto; [|repeat split; auto].
  apply flat_map_ext_in'. intros a Ha. apply IH; auto.
  eapply (ok_sem (LookAround x la)); eauto.
Qed.

Lemma la_eq c la g hc st : AT c -> Forall AT (alts_of c) -> preA (LookAround c la) -> sok st ->
  negb hc && negb (hard bs g (LookAround c la)) = false ->
  sem cx (atomize bs (LookAround c la) g hc) fuel g st = sem cx (LookAround c la) fuel g st.
Proof.
  intros Hc Halts (Hw & Hz & Hr & Hl) Hs Hsh. cbn [wfe] in Hw. cbn [refs_ok] in Hr. cbn [lbc] in Hl. destruct Hl as [Hlc Hlb].
  destruct (match la, c with (LookBehind | LookBehindNeg), Alt _ => negb (const_size c) | _, _ => false end) eqn:Esp.
  - (* an alternation of different lengths *)
    destruct c as [| | | | |es| | | | | | | | | | |]; try (destruct la; discriminate).
    assert (Hla : la = LookBehind \/ la = LookBehindNeg) by (destruct la; auto; discriminate).
    assert (Hb : is_behind la = true) by (destruct Hla as [-> | ->]; reflexivity).
    assert (Hcs : const_size (Alt es) = false) by (destruct la; try discriminate; now apply negb_true_iff in Esp).
    rewrite (atomize_lb_split bs es g hc la Hsh Hla Hcs).
    destruct (Hlb Hb) as [Hzc [Hcc|(es0 & E0 & Hall)]]; [congruence|]. inversion E0; subst es0. clear E0.
    rewrite wfe_alt in Hw. rewrite zok_alt in Hzc.
    rewrite refs_ok_alt in Hr. rewrite lbc_alt in Hlc. cbn [alts_of] in Halts.
    assert (Hcs' : const_size (Alt (atom_list bs false g es)) = false).
    { assert (Hk : keeps (Alt es) (Alt (atom_list bs false g es))).
      { apply keeps_alt. apply atom_list_keeps. apply Forall_forall. intros x _ g0 hc0. apply atomize_keeps. }
      destruct Hk as (_ & _ & _ & _ & Hk). rewrite Hk. exact Hcs. }
    assert (Hall' : forall x, In x es -> const_size x = true) by (now apply Forall_forall).
    destruct Hla as [-> | ->].
    + rewrite (sem_lb_split cs W cx Htext Hlen 2 (le_n _) fuel Hfuel (atom_list bs false g es) g st);
        auto using atom_wfe, atom_zok; [|intros x' Hx'; eapply atom_const; eauto].
      rewrite (sem_lb_split cs W cx Htext Hlen 2 (le_n _) fuel Hfuel es g st); auto.
      apply gsem_alts_atom; auto.
    + rewrite (sem_lbn_split cs W cx Htext Hlen 2 (le_n _) fuel Hfuel (atom_list bs false g es) g st);
        auto using atom_wfe, atom_zok; [|intros x' Hx'; eapply atom_const; eauto].
      rewrite (sem_lbn_split cs W cx Htext Hlen 2 (le_n _) fuel Hfuel es g st); auto.
      apply gsem_seq_atom; auto.
  - (* one body *)
    rewrite (atomize_la bs c la g hc Hsh Esp).
    destruct la.
    + assert (Hsp : (exists i sz ci, c = Delegate i sz ci DNlStarEnd) \/ zok c).
      { destruct c; try (right; exact Hz). destruct k; [right; exact Hz|left; eauto]. }
      destruct Hsp as [(i & sz & ci & ->)|Hzc]; [reflexivity|]. apply la_ahead; auto. repeat split; auto.
    + assert (Hsp : (exists i sz ci, c = Delegate i sz ci DNlStarEnd) \/ zok c).
      { destruct c; try (right; exact Hz). destruct k; [right; exact Hz|left; eauto]. }
      destruct Hsp as [(i & sz & ci & ->)|Hzc]; [reflexivity|]. apply la_ahead; auto. repeat split; auto.
    + destruct (Hlb eq_refl) as [Hzc Hcc]. apply la_behind_const; auto; [repeat split; auto|].
      destruct Hcc as [Hcc|(es0 & -> & _)]; auto. now apply negb_false_iff in Esp.
    + destruct (Hlb eq_refl) as [Hzc Hcc]. apply la_behind_const; auto; [repeat split; auto|].
      destruct Hcc as [Hcc|(es0 & -> & _)]; auto. now apply negb_false_iff in Esp.
Qed.

(* ---------- the induction ---------- *)
Lemma scat_app : forall a g b st,
  sem_cat cx fuel g (a ++ b) st = flat_map (sem_cat cx fuel (g + ngroups_list a) b) (sem_cat cx fuel g a st).
Proof.
  induction a as [|x a IH]; intros g b st; cbn [app sem_cat].
  - unfold ngroups_list. cbn. rewrite Nat.add_0_r, app_nil_r. reflexivity.
  - rewrite flat_map_flat_map'. apply flat_map_ext. intros s1. rewrite IH.
    change (ngroups_list (x :: a)) with (ngroups x + ngroups_list a). now rewrite Nat.add_assoc.
Qed.

Lemma ngl_wrap A : ngroups_list (wrapA A) = ngroups_list A.
Proof. apply (lkeeps_wrapA A). Qed.
Lemma ngl_atom hc : forall l g, ngroups_list (atom_list bs hc g l) = ngroups_list l.
Proof.
  induction l as [|x r IH]; intros g; [reflexivity|]. cbn [atom_list].
  change (ngroups (atomize bs x g hc) + ngroups_list (atom_list bs hc (g + ngroups x) r) = ngroups x + ngroups_list r).
  now rewrite kn, IH.
Qed.

Lemma wfe_list_app' a b : wfe_list (a ++ b) <-> wfe_list a /\ wfe_list b.
Proof. induction a as [|x a IH]; cbn [app wfe_list]; tauto. Qed.
Lemma zok_list_app' a b : zok_list (a ++ b) <-> zok_list a /\ zok_list b.
Proof. induction a as [|x a IH]; cbn [app zok_list]; tauto. Qed.
Lemma rok_list_app a b : refs_ok_list True refd (a ++ b) <-> refs_ok_list True refd a /\ refs_ok_list True refd b.
Proof. induction a as [|x a IH]; cbn [app refs_ok_list]; tauto. Qed.
Lemma lbc_list_app a b : lbc_list (a ++ b) <-> lbc_list a /\ lbc_list b.
Proof. induction a as [|x a IH]; cbn [app lbc_list]; tauto. Qed.

Lemma alts_H : forall l, Forall AH l -> wfe_list l -> zok_list l -> refs_ok_list True refd l -> lbc_list l ->
  forall g st, sok st -> Prn (sem_alts cx fuel g (atom_list bs true g l) st) (sem_alts cx fuel g l st).
Proof.
  induction 1 as [|x r Hx Hr IH]; intros Hw Hz Hrf Hl g st Hs; [apply prune_refl|].
  destruct Hw as [W1 W2]. destruct Hz as [Z1 Z2]. destruct Hrf as [R1 R2]. destruct Hl as [L1 L2].
  cbn [atom_list sem_alts]. rewrite kn. apply Prn_app; [apply Hx; auto; repeat split; auto|apply IH; auto].
Qed.
Lemma alts_T : forall l, Forall AT l -> wfe_list l -> zok_list l -> refs_ok_list True refd l -> lbc_list l ->
  forall g st, sok st -> Hd (sem_alts cx fuel g (atom_list bs false g l) st) (sem_alts cx fuel g l st).
Proof.
  induction 1 as [|x r Hx Hr IH]; intros Hw Hz Hrf Hl g st Hs; [reflexivity|].
  destruct Hw as [W1 W2]. destruct Hz as [Z1 Z2]. destruct Hrf as [R1 R2]. destruct Hl as [L1 L2].
  cbn [atom_list sem_alts]. rewrite kn. apply hdrel_app; [apply Hx; auto; repeat split; auto|apply IH; auto].
Qed.

(* concatenation: the part up to the suffix is a pruning in both modes *)
Lemma cat_front es g hc st : Forall AH es -> wfe_list es -> zok_list es -> refs_ok_list True refd es -> lbc_list es ->
  sok st ->
  let pe := cat_pe bs g es in let sb := cat_sb bs hc g es in
  let A := firstn pe es in let B := firstn (sb - pe) (skipn pe es) in
  Prn (sem_cat cx fuel g (wrapA A ++ atom_list bs true (g + ngroups_list A) B) st)
      (sem_cat cx fuel g (A ++ B) st).
Proof.
  intros HA Hw Hz Hr Hl Hs pe sb A B.
  pose proof (cat_bounds bs hc g es) as Hb. fold pe sb in Hb.
  assert (Hes : es = A ++ B ++ skipn sb es).
  { unfold A, B. rewrite <- (firstn_skipn pe es) at 1. f_equal.
    rewrite <- (firstn_skipn (sb - pe) (skipn pe es)) at 1. f_equal. rewrite skipn_add. f_equal. lia. }
  rewrite Hes in HA, Hw, Hz, Hr, Hl.
  apply Forall_app in HA as [_ HA]. apply Forall_app in HA as [HAB _].
  apply wfe_list_app' in Hw as [WA Hw]. apply wfe_list_app' in Hw as [WB _].
  apply zok_list_app' in Hz as [ZA Hz]. apply zok_list_app' in Hz as [ZB _].
  apply rok_list_app in Hr as [RA Hr]. apply rok_list_app in Hr as [RB _].
  apply lbc_list_app in Hl as [LA Hl]. apply lbc_list_app in Hl as [LB _].
  destruct (prefix_props es g) as [PE PC]. fold (cat_pe bs g es) in PE, PC. fold pe in PE, PC. fold A in PE, PC.
  rewrite !scat_app, ngl_wrap.
  eapply (pbind _ _ sok).
  - intros s1 Hs1. apply prune_cat; auto.
  - intros a b Hab. apply par_cat; auto.
  - apply prune_block; auto.
  - apply ok_all_cat; auto.
Qed.

Definition AB (e : expr) : Prop := AH e /\ AT e.

Lemma easy_T e : forall g st, negb false && negb (hard bs g e) = true ->
  Hd (sem cx (atomize bs e g false) fuel g st) (sem cx e fuel g st).
Proof.
  intros g st Hs. rewrite (atomize_easy bs e g false Hs). destruct (det e); [reflexivity|].
  rewrite sem_atomic_eq. apply hdrel_firstn1.
Qed.

Lemma arrowA_aux : forall e, AB e /\ Forall AB (alts_of e).
Proof.
  induction e using expr_ind'.
  all: try match goal with |- AB ?e /\ Forall AB (alts_of ?e) =>
         match e with
         | Alt _ => idtac
         | _ => assert (H1 : AB e); [|split; [exact H1|constructor; [exact H1|constructor]]] end end.
  (* leaves *)
  all: try (split; [intros Hp g0 st Hs; cbn [atomize andb negb]; apply prune_refl
                   |intros Hp g0 st Hs;
                    match goal with |- Hd (sem cx (atomize bs ?x _ _) _ _ _) _ =>
                      destruct (negb false && negb (hard bs g0 x)) eqn:Hsh; [now apply easy_T|
                      cbn [atomize]; rewrite Hsh; reflexivity] end]; fail).
  - (* Concat *)
    assert (HA : Forall AH es) by (eapply Forall_impl; [|exact H]; intros a Ha; apply Ha).
    split.
    + intros (Hw & Hz & Hr & Hl) g0 st Hs. rewrite wfe_concat in Hw. rewrite zok_concat in Hz.
      rewrite refs_ok_concat in Hr. rewrite lbc_concat in Hl.
      destruct (atomize_concat bs es g0 true eq_refl) as [Hes Hat]. rewrite Hat. clear Hat.
      pose proof (cat_front es g0 true st HA Hw Hz Hr Hl Hs) as Hfr. cbv zeta in Hfr.
      set (pe := cat_pe bs g0 es) in *. set (sb := cat_sb bs true g0 es) in *.
      set (A := firstn pe es) in *. set (B := firstn (sb - pe) (skipn pe es)) in *. set (C := skipn sb es) in *.
      rewrite !sem_concat_eq. replace (sem_cat cx fuel g0 es st) with (sem_cat cx fuel g0 (A ++ B ++ C) st) by (f_equal; symmetry; exact Hes).
      rewrite (app_assoc (wrapA A)), (app_assoc A). rewrite (scat_app (wrapA A ++ _)), (scat_app (A ++ B)).
      rewrite !ngl_app', ngl_wrap, ngl_atom.
      rewrite Hes in Hw, Hz, Hr, Hl.
      apply wfe_list_app' in Hw as [WA Hw]. apply wfe_list_app' in Hw as [WB WC].
      apply zok_list_app' in Hz as [ZA Hz]. apply zok_list_app' in Hz as [ZB ZC].
      apply rok_list_app in Hr as [RA Hr]. apply rok_list_app in Hr as [RB RC].
      destruct (suffix_props true es g0) as [SE SC]. fold sb in SE, SC. fold C in SE, SC.
      assert (Eg : g0 + ngroups_list (firstn sb es) = g0 + (ngroups_list A + ngroups_list B)).
      { assert (firstn sb es = A ++ B).
        { rewrite Hes at 1. pose proof (cat_bounds bs true g0 es) as Hb. fold pe sb in Hb.
          assert (length (A ++ B) = sb).
          { rewrite app_length. unfold A, B. rewrite !firstn_length_le; try lia. rewrite skipn_length. lia. }
          rewrite app_assoc. rewrite <- H0 at 1. rewrite firstn_app, firstn_all, Nat.sub_diag. cbn. now rewrite app_nil_r. }
        rewrite H0, ngl_app'. reflexivity. }
      rewrite Eg in SE.
      eapply (pbind _ _ sok).
      * intros s1 Hs1. apply prune_block; auto.
      * intros a b Hab. apply par_cat; auto.
      * exact Hfr.
      * apply ok_all_cat; auto. apply wfe_list_app'. split; auto.
    + intros (Hw & Hz & Hr & Hl) g0 st Hs.
      destruct (negb false && negb (hard bs g0 (Concat es))) eqn:Hsh; [now apply easy_T|].
      rewrite wfe_concat in Hw. rewrite zok_concat in Hz. rewrite refs_ok_concat in Hr. rewrite lbc_concat in Hl.
      destruct (atomize_concat bs es g0 false Hsh) as [Hes Hat]. rewrite Hat. clear Hat.
      pose proof (cat_front es g0 false st HA Hw Hz Hr Hl Hs) as Hfr. cbv zeta in Hfr.
      set (pe := cat_pe bs g0 es) in *. set (sb := cat_sb bs false g0 es) in *.
      set (A := firstn pe es) in *. set (B := firstn (sb - pe) (skipn pe es)) in *. set (C := skipn sb es) in *.
      rewrite !sem_concat_eq. replace (sem_cat cx fuel g0 es st) with (sem_cat cx fuel g0 (A ++ B ++ C) st) by (f_equal; symmetry; exact Hes).
      rewrite (app_assoc (wrapA A)), (app_assoc A). rewrite (scat_app (wrapA A ++ _)), (scat_app (A ++ B)).
      rewrite !ngl_app', ngl_wrap, ngl_atom.
      rewrite Hes in Hw, Hr.
      apply wfe_list_app' in Hw as [WA Hw]. apply wfe_list_app' in Hw as [WB WC].
      apply rok_list_app in Hr as [RA Hr]. apply rok_list_app in Hr as [RB RC].
      eapply (hd_bind_tail sst E _ _ sok).
      * intros s1 Hs1. apply hd_block.
      * intros a b Hab Ha. pose proof (par_cat C RC (g0 + (ngroups_list A + ngroups_list B)) a b Hab) as Hf.
        rewrite Ha in Hf. inversion Hf. reflexivity.
      * exact Hfr.
      * apply ok_all_cat; auto. apply wfe_list_app'. split; auto.
  - (* Alt *)
    assert (HA : Forall AH es) by (eapply Forall_impl; [|exact H]; intros a Ha; apply Ha).
    assert (HT : Forall AT es) by (eapply Forall_impl; [|exact H]; intros a Ha; apply Ha).
    split; [|eapply Forall_impl; [|exact H]; intros a Ha; apply Ha]. split.
    + intros (Hw & Hz & Hr & Hl) g0 st Hs. rewrite (atomize_alt bs es g0 true eq_refl).
      rewrite wfe_alt in Hw. rewrite zok_alt in Hz. rewrite refs_ok_alt in Hr. rewrite lbc_alt in Hl.
      rewrite !sem_alt_eq. now apply alts_H.
    + intros (Hw & Hz & Hr & Hl) g0 st Hs.
      destruct (negb false && negb (hard bs g0 (Alt es))) eqn:Hsh; [now apply easy_T|].
      rewrite (atomize_alt bs es g0 false Hsh).
      rewrite wfe_alt in Hw. rewrite zok_alt in Hz. rewrite refs_ok_alt in Hr. rewrite lbc_alt in Hl.
      rewrite !sem_alt_eq. now apply alts_T.
  - (* Group *)
    destruct IHe as [[IH1 IH2] _]. split.
    + intros (Hw & Hz & Hr & Hl) g0 [ix cp] Hs. rewrite (atomize_group bs e g0 true eq_refl). cbn [sem].
      assert (Hs1 : sok (ix, upd cp (2 * g0) (V ix))).
      { destruct Hs as [Hb Hc]. split; auto. cbn [snd] in *. apply val_ok_upd; auto. }
      refine (prune_map sst E (fun s' : sst => (fst s', upd (snd s') (2 * g0 + 1) (V (fst s')))) _ [] _ _ _);
        [|apply IH1; auto; repeat split; auto].
      intros x y [Hx1 Hx2]. split; cbn [fst snd]; auto. rewrite Hx1. apply eqr_upd; auto.
    + intros (Hw & Hz & Hr & Hl) g0 [ix cp] Hs.
      destruct (negb false && negb (hard bs g0 (Group e))) eqn:Hsh; [now apply easy_T|].
      rewrite (atomize_group bs e g0 false Hsh). cbn [sem].
      assert (Hs1 : sok (ix, upd cp (2 * g0) (V ix))).
      { destruct Hs as [Hb Hc]. split; auto. cbn [snd] in *. apply val_ok_upd; auto. }
      apply hdrel_map. apply IH2; auto. repeat split; auto.
  - (* LookAround *)
    destruct IHe as [[IH1 IH2] IHalts].
    assert (HT : Forall AT (alts_of e)) by (eapply Forall_impl; [|exact IHalts]; intros a Ha; apply Ha).
    split.
    + intros Hp g0 st Hs. rewrite (la_eq e la g0 true st IH2 HT Hp Hs eq_refl). apply prune_refl.
    + intros Hp g0 st Hs. rewrite (la_eq e la g0 false st IH2 HT Hp Hs eq_refl). reflexivity.
  - (* Repeat *)
    destruct IHe as [[IH1 IH2] _].
    assert (HH : forall g0 st, preA (Repeat e lo hi gr) -> sok st ->
              Prn (sem cx (Repeat (atomize bs e g0 true) lo hi gr) fuel g0 st) (sem cx (Repeat e lo hi gr) fuel g0 st)).
    { intros g0 st (Hw & Hz & Hr & Hl) Hs. cbn [wfe] in Hw. cbn [zok] in Hz. cbn [refs_ok] in Hr. cbn [lbc] in Hl.
      rewrite !sem_repeat_eq.
      assert (Hb : forall s, sok s -> Prn (sem cx (atomize bs e g0 true) fuel g0 s) (sem cx e fuel g0 s))
        by (intros s Hss; apply IH1; auto; repeat split; auto).
      assert (Hpar : forall a b, E a b -> Forall2 E (sem cx e fuel g0 a) (sem cx e fuel g0 b)) by (intros; now apply par).
      assert (Hok : forall s s', sok s -> In s' (sem cx e fuel g0 s) -> sok s') by (intros; eapply ok_sem; eauto).
      eapply (pbind _ _ sok).
      - intros s1 Hs1. destruct (N.eqb hi usize_max); [apply prune_rep_opt_u|apply prune_rep_opt_b]; auto.
      - intros a b Hab. destruct (N.eqb hi usize_max).
        + apply (rep_opt_u_rel eqr _ _ Hpar gr fuel a b Hab).
        + apply (rep_opt_b_rel eqr _ _ Hpar gr _ a b Hab).
      - apply prune_rep_must; auto.
      - apply Forall_forall. intros x Hx. eapply ok_rep_must; eauto. }
    split.
    + intros Hp g0 st Hs. rewrite (atomize_repeat bs e lo hi gr g0 true eq_refl).
      replace (if N.eqb lo 0 && N.eqb hi 1 then true else true || hard bs g0 (Repeat e lo hi gr)) with true
        by (destruct (N.eqb lo 0 && N.eqb hi 1); reflexivity).
      now apply HH.
    + intros Hp g0 st Hs.
      destruct (negb false && negb (hard bs g0 (Repeat e lo hi gr))) eqn:Hsh; [now apply easy_T|].
      rewrite (atomize_repeat bs e lo hi gr g0 false Hsh).
      assert (Hhard : hard bs g0 (Repeat e lo hi gr) = true) by (cbn [negb andb] in Hsh; now apply negb_false_iff in Hsh).
      destruct (N.eqb lo 0 && N.eqb hi 1) eqn:EA.
      * (* e? in a tail context *)
        apply andb_true_iff in EA as [E1 E2]. apply N.eqb_eq in E1, E2. subst lo hi.
        destruct Hp as (Hw & Hz & Hr & Hl). cbn [wfe] in Hw. cbn [zok] in Hz. cbn [refs_ok] in Hr. cbn [lbc] in Hl.
        rewrite !sem_repeat_eq. change (N.eqb 1 usize_max) with false. cbv iota.
        change (N.to_nat 1 - N.to_nat 0) with 1. change (N.to_nat 0) with 0. cbn [rep_must flat_map]. rewrite !app_nil_r.
        cbn [rep_opt_b]. rewrite !flat_map_id.
        pose proof (IH2 (conj Hw (conj Hz (conj Hr Hl))) g0 st Hs) as Hb.
        destruct gr; [apply hdrel_app; [exact Hb|reflexivity]|reflexivity].
      * rewrite Hhard. cbn [orb]. apply (prune_hd sst E). now apply HH.
  - (* AtomicGroup *)
    destruct IHe as [[IH1 IH2] _]. split.
    + intros (Hw & Hz & Hr & Hl) g0 st Hs. rewrite (atomize_atomic bs e g0 true eq_refl). rewrite !sem_atomic_eq.
      rewrite (firstn1_of_hd _ _ (IH2 (conj Hw (conj Hz (conj Hr Hl))) g0 st Hs)). apply prune_refl.
    + intros (Hw & Hz & Hr & Hl) g0 st Hs. rewrite (atomize_atomic bs e g0 false eq_refl). rewrite !sem_atomic_eq.
      rewrite (firstn1_of_hd _ _ (IH2 (conj Hw (conj Hz (conj Hr Hl))) g0 st Hs)). reflexivity.
  - (* Conditional *)
    destruct IHe1 as [[C1 C2] _]. destruct IHe2 as [[Y1 Y2] _]. destruct IHe3 as [[N1 N2] _].
    split.
    + intros (Hw & Hz & Hr & Hl) g0 st Hs. destruct Hw as (W1' & W2' & W3'). destruct Hz as (Z1' & Z2' & Z3').
      destruct Hr as (R1' & R2' & R3'). destruct Hl as (L1' & L2' & L3').
      rewrite (atomize_cond bs e1 e2 e3 g0 true eq_refl). rewrite !C15_sem_cond, !kn.
      pose proof (prune_hd _ _ _ _ (C1 (conj W1' (conj Z1' (conj R1' L1'))) g0 st Hs)) as Hh. unfold hdrel in Hh.
      destruct (sem cx (atomize bs e1 g0 true) fuel g0 st) as [|s1' r1'], (sem cx e1 fuel g0 st) as [|s1 r1] eqn:Ec;
        cbn in Hh; try discriminate.
      * apply N1; auto. repeat split; auto.
      * inversion Hh; subst s1'. apply Y1; [repeat split; auto|]. eapply (ok_sem e1); eauto. rewrite Ec. left; auto.
    + intros (Hw & Hz & Hr & Hl) g0 st Hs. destruct Hw as (W1' & W2' & W3'). destruct Hz as (Z1' & Z2' & Z3').
      destruct Hr as (R1' & R2' & R3'). destruct Hl as (L1' & L2' & L3').
      rewrite (atomize_cond bs e1 e2 e3 g0 false eq_refl). rewrite !C15_sem_cond, !kn.
      pose proof (C2 (conj W1' (conj Z1' (conj R1' L1'))) g0 st Hs) as Hh. unfold hdrel in Hh.
      destruct (sem cx (atomize bs e1 g0 false) fuel g0 st) as [|s1' r1'], (sem cx e1 fuel g0 st) as [|s1 r1] eqn:Ec;
        cbn in Hh; try discriminate.
      * apply N2; auto. repeat split; auto.
      * inversion Hh; subst s1'. apply Y2; [repeat split; auto|]. eapply (ok_sem e1); eauto. rewrite Ec. left; auto.
Qed.

(* the search: same first result, captures included *)
Theorem arrowA e st : preA e -> sok st ->
  hd_error (sem cx (atomize bs e 0 false) fuel 0 st) = hd_error (sem cx e fuel 0 st).
Proof. intros Hp Hs. apply (proj2 (proj1 (arrowA_aux e)) Hp 0 st Hs). Qed.

End A.
