(* Analyze.v — port of analyze.rs:73-220 as functions on (Expr, first group number): group
   range, min_size, const_size, hard, and the analysis errors.  Sizes are N with the saturating
   arithmetic of the source made explicit.  [facts] rebuilds the pre-order Info listing. *)
From FR Require Export Ast.

Definition sat_add (a b : N) : N := N.min (a + b) usize_max.
Definition sat_mul (a b : N) : N := N.min (a * b) usize_max.

Fixpoint ngroups (e : expr) : nat :=
  match e with
  | Concat es | Alt es =>
      (fix go (l : list expr) : nat :=
         match l with [] => 0 | x :: r => ngroups x + go r end) es
  | Group c => S (ngroups c)
  | LookAround c _ | Repeat c _ _ _ | AtomicGroup c => ngroups c
  | Conditional c t f => ngroups c + ngroups t + ngroups f
  | _ => 0
  end.

Definition ngroups_list (es : list expr) : nat := fold_right (fun x a => ngroups x + a) 0 es.

Fixpoint min_size (e : expr) : N :=
  match e with
  | Empty | Assertion _ => 0
  | Any _ => 1
  | Literal _ _ => 1
  | Concat es =>
      (fix go (l : list expr) (acc : N) : N :=
         match l with [] => acc | x :: r => go r (sat_add acc (min_size x)) end) es 0%N
  | Alt es =>
      match es with
      | [] => 0
      | x :: r =>
          (fix go (l : list expr) (acc : N) : N :=
             match l with [] => acc | y :: r' => go r' (N.min acc (min_size y)) end) r (min_size x)
      end
  | Group c => min_size c
  | LookAround _ _ => 0
  | Repeat c lo _ _ => sat_mul (min_size c) lo
  | Delegate _ size _ _ => size
  | Backref _ => 0
  | AtomicGroup c => min_size c
  | KeepOut | ContinueFromPreviousMatchEnd | BackrefExistsCondition _ => 0
  | Conditional c t f => N.min (sat_add (min_size c) (min_size t)) (min_size f)
  | SubroutineCall _ => 0
  end.

Fixpoint const_size (e : expr) : bool :=
  match e with
  | Empty | Assertion _ | Any _ | Literal _ _ => true
  | Concat es =>
      (fix go (l : list expr) : bool :=
         match l with [] => true | x :: r => const_size x && go r end) es
  | Alt es =>
      match es with
      | [] => false
      | x :: r =>
          (fix go (l : list expr) (m : N) (cs : bool) : bool :=
             match l with
             | [] => cs
             | y :: r' =>
                 go r' (N.min m (min_size y)) (cs && (const_size y && N.eqb m (min_size y)))
             end) r (min_size x) (const_size x)
      end
  | Group c => const_size c
  | LookAround _ _ => true
  | Repeat c lo hi _ => const_size c && N.eqb lo hi
  | Delegate _ _ _ _ => true
  | Backref _ => false
  | AtomicGroup c => const_size c
  | KeepOut | ContinueFromPreviousMatchEnd | BackrefExistsCondition _ => true
  | Conditional c t f =>
      const_size c && const_size t && const_size f
      && N.eqb (sat_add (min_size c) (min_size t)) (min_size f)
  | SubroutineCall _ => false
  end.

(* [bs]: membership in the parser's backrefs BitSet *)
Fixpoint hard (bs : N -> bool) (g : nat) (e : expr) : bool :=
  match e with
  | Assertion a => assertion_is_hard a
  | Concat es | Alt es =>
      (fix go (g : nat) (l : list expr) : bool :=
         match l with [] => false | x :: r => hard bs g x || go (g + ngroups x) r end) g es
  | Group c => hard bs (S g) c || bs (N.of_nat g)
  | LookAround _ _ => true
  | Repeat c _ hi _ => hard bs g c || (N.eqb hi 0 && (0 <? ngroups c))   (* {0} over a group: the VM keeps the group *)
  | Backref _ | AtomicGroup _ | KeepOut | ContinueFromPreviousMatchEnd
  | BackrefExistsCondition _ | Conditional _ _ _ => true
  | Empty | Any _ | Literal _ _ | Delegate _ _ _ _ | SubroutineCall _ => false
  end.

Inductive aerr := AInvalidBackref | AFeatureNotYetSupported | APanicEmptyAlt.

(* the first analysis error met in pre-order, if any *)
Fixpoint acheck (g : nat) (e : expr) : option aerr :=
  match e with
  | Concat es =>
      (fix go (g : nat) (l : list expr) : option aerr :=
         match l with
         | [] => None
         | x :: r => match acheck g x with Some er => Some er | None => go (g + ngroups x) r end
         end) g es
  | Alt es =>
      match es with
      | [] => Some APanicEmptyAlt
      | _ =>
        (fix go (g : nat) (l : list expr) : option aerr :=
           match l with
           | [] => None
           | x :: r => match acheck g x with Some er => Some er | None => go (g + ngroups x) r end
           end) g es
      end
  | Group c => acheck (S g) c
  | LookAround c _ | Repeat c _ _ _ | AtomicGroup c => acheck g c
  | Backref grp | BackrefExistsCondition grp =>
      if N.ltb grp (N.of_nat g) then None else Some AInvalidBackref
  | Conditional c t f =>
      match acheck g c with
      | Some er => Some er
      | None =>
          match acheck (g + ngroups c) t with
          | Some er => Some er
          | None => acheck (g + ngroups c + ngroups t) f
          end
      end
  | SubroutineCall _ => Some AFeatureNotYetSupported
  | _ => None
  end.

(* pre-order listing (start_group, end_group, min_size, const_size, hard) — what the
   analysis_facts hook prints *)
Record fact := { f_start : nat; f_end : nat; f_min : N; f_const : bool; f_hard : bool }.

Fixpoint facts (bs : N -> bool) (g : nat) (e : expr) : list fact :=
  {| f_start := g; f_end := g + ngroups e; f_min := min_size e;
     f_const := const_size e; f_hard := hard bs g e |}
  :: match e with
     | Concat es | Alt es =>
         (fix go (g : nat) (l : list expr) : list fact :=
            match l with [] => [] | x :: r => facts bs g x ++ go (g + ngroups x) r end) g es
     | Group c => facts bs (S g) c
     | LookAround c _ | Repeat c _ _ _ | AtomicGroup c => facts bs g c
     | Conditional c t f =>
         facts bs g c ++ facts bs (g + ngroups c) t ++ facts bs (g + ngroups c + ngroups t) f
     | _ => []
     end.

(* wrap_tree (lib.rs:1760): (?s:.)*?(RE) *)
Definition wrap (e : expr) : expr :=
  Concat [Repeat (Any true) 0 usize_max false; Group e].

(* Info::is_literal / push_literal *)
Fixpoint is_literal (e : expr) : bool :=
  match e with
  | Literal _ casei => negb casei
  | Concat es => (fix go (l : list expr) := match l with [] => true | x :: r => is_literal x && go r end) es
  | _ => false
  end.

Fixpoint push_literal (e : expr) : list nat :=
  match e with
  | Literal v _ => v
  | Concat es => (fix go (l : list expr) := match l with [] => [] | x :: r => push_literal x ++ go r end) es
  | _ => []
  end.
