(* Api.v — port of the API layer of lib.rs over an abstract search function:
   Matches::next (281-333), CaptureMatches::next (357-394), Split::next (439-470),
   SplitN::next (492-524), try_replacen (1082-1140), Captures::{get,len} (1255-1330).
   Every slice the code takes is an explicit Panic outcome when out of order or out of range. *)
From FR Require Export Vm Compile.

Inductive rterr := EStack | ELimit | EPanicked | EFuel.

Inductive sres := SErr (e : rterr) | SNone | SSome (saves : list val).

Inductive item := ItErr (e : rterr) | ItOk (a b : nat) (saves : list val).

Section Api.
Variable tx : text.
(* vm::run / the automata engine: position, skipped-empty-match flag -> result *)
Variable search : nat -> bool -> sres.

Let tlen := length tx.

Record mstate := { last_end : nat; last_match : option nat }.
Definition m_init : mstate := {| last_end := 0; last_match := None |}.

Definition span_of (saves : list val) : option (nat * nat) :=
  match saves with
  | V a :: V b :: _ => Some (a, b)
  | _ => None
  end.

(* one call of next(); [with_flag] distinguishes nothing after the captures_iter repair: both
   iterators pass the skipped-empty-match flag.  fuel bounds the self-recursion. *)
Fixpoint matches_next (fuel : nat) (st : mstate) : option item * mstate :=
  if tlen <? last_end st then (None, st) else
  let flag := match last_match st with Some lm => lm <? last_end st | None => false end in
  match search (last_end st) flag with
  | SErr e => (Some (ItErr e), {| last_end := tlen + 1; last_match := last_match st |})
  | SNone => (None, st)
  | SSome saves =>
      match span_of saves with
      | None => (Some (ItErr EPanicked), {| last_end := tlen + 1; last_match := last_match st |})
      | Some (a, b) =>
          if a =? b then
            let le := next_utf8 tx b in
            if match last_match st with Some lm => lm =? b | None => false end then
              match fuel with
              | 0 => (Some (ItErr EFuel), st)
              | S f => matches_next f {| last_end := le; last_match := last_match st |}
              end
            else (Some (ItOk a b saves), {| last_end := le; last_match := Some b |})
          else (Some (ItOk a b saves), {| last_end := b; last_match := Some b |})
      end
  end.

(* CaptureMatches::next (lib.rs:357-394) is written separately from Matches::next; after the
   captures_iter repair it computes the same flag and calls the same search. *)
Fixpoint cmatches_next (fuel : nat) (st : mstate) : option item * mstate :=
  if tlen <? last_end st then (None, st) else
  let flag := match last_match st with
              | Some lm => if lm <? last_end st then true else false
              | None => false
              end in
  match search (last_end st) flag with
  | SErr e => (Some (ItErr e), {| last_end := tlen + 1; last_match := last_match st |})
  | SNone => (None, st)
  | SSome saves =>
      match span_of saves with
      | None => (Some (ItErr EPanicked), {| last_end := tlen + 1; last_match := last_match st |})
      | Some (a, b) =>
          if a =? b then
            let le := next_utf8 tx b in
            if match last_match st with Some lm => lm =? b | None => false end then
              match fuel with
              | 0 => (Some (ItErr EFuel), st)
              | S f => cmatches_next f {| last_end := le; last_match := last_match st |}
              end
            else (Some (ItOk a b saves), {| last_end := le; last_match := Some b |})
          else (Some (ItOk a b saves), {| last_end := b; last_match := Some b |})
      end
  end.

Definition next_fuel (st : mstate) : nat := tlen + 2 - last_end st.

Definition mnext (st : mstate) := matches_next (next_fuel st) st.

(* the whole yielded sequence (at most n items) *)
Fixpoint collect (n : nat) (st : mstate) : list item :=
  match n with
  | 0 => []
  | S n' => match mnext st with
            | (None, _) => []
            | (Some it, st') => it :: collect n' st'
            end
  end.

Fixpoint ccollect (n : nat) (st : mstate) : list item :=
  match n with
  | 0 => []
  | S n' => match cmatches_next (next_fuel st) st with
            | (None, _) => []
            | (Some it, st') => it :: ccollect n' st'
            end
  end.

(* ----- Split ----- *)
Record spstate := { sp_m : mstate; sp_next : nat }.
Inductive piece := PcErr (e : rterr) | PcOk (lo hi : nat) | PcPanic.

Definition slice_ok (lo hi : nat) : piece :=
  if (lo <=? hi) && (hi <=? tlen) && is_boundary tx lo && is_boundary tx hi
  then PcOk lo hi else PcPanic.

Definition split_next (st : spstate) : option piece * spstate :=
  match mnext (sp_m st) with
  | (None, m') =>
      if tlen <? sp_next st then (None, {| sp_m := m'; sp_next := sp_next st |})
      else (Some (slice_ok (sp_next st) tlen), {| sp_m := m'; sp_next := tlen + 1 |})
  | (Some (ItOk a b _), m') =>
      (Some (slice_ok (sp_next st) a), {| sp_m := m'; sp_next := b |})
  | (Some (ItErr e), m') => (Some (PcErr e), {| sp_m := m'; sp_next := sp_next st |})
  end.

Definition sp_init : spstate := {| sp_m := m_init; sp_next := 0 |}.

Fixpoint split_collect (n : nat) (st : spstate) : list piece :=
  match n with
  | 0 => []
  | S n' => match split_next st with
            | (None, _) => []
            | (Some p, st') => p :: split_collect n' st'
            end
  end.

(* ----- SplitN ----- *)
Record snstate := { sn_s : spstate; sn_limit : nat }.

Definition splitn_next (st : snstate) : option piece * snstate :=
  match sn_limit st with
  | 0 => (None, st)
  | S l =>
      if 0 <? l then
        let '(p, s') := split_next (sn_s st) in (p, {| sn_s := s'; sn_limit := l |})
      else
        let s := sn_s st in
        if tlen <? sp_next s then (None, {| sn_s := s; sn_limit := l |})
        else (Some (slice_ok (sp_next s) tlen),
              {| sn_s := {| sp_m := sp_m s; sp_next := tlen + 1 |}; sn_limit := l |})
  end.

Fixpoint splitn_collect (n : nat) (st : snstate) : list piece :=
  match n with
  | 0 => []
  | S n' => match splitn_next st with
            | (None, _) => []
            | (Some p, st') => p :: splitn_collect n' st'
            end
  end.

(* ----- try_replacen ----- *)
Inductive rres := RBorrowed | ROwned (s : list nat) | RErr (e : rterr) | RPanicR.

Variable rep : list val -> list nat.      (* the replacer's output for a match's captures *)

Definition seg (lo hi : nat) : option (list nat) :=
  if (lo <=? hi) && (hi <=? tlen) && is_boundary tx lo && is_boundary tx hi
  then Some (slice tx lo hi) else None.

Definition cnext (st : mstate) := cmatches_next (next_fuel st) st.

(* [nx]: the iterator the path uses — Matches (fast path, no expansion) or CaptureMatches *)
Variable nx : mstate -> option item * mstate.

(* the loop `for (i, m) in it` after the first item has been peeked *)
Fixpoint replace_loop (fuel : nat) (limit i : nat) (cur : option item) (st : mstate)
         (last : nat) (acc : list nat) : rres :=
  match cur with
  | None => match seg last tlen with Some s => ROwned (acc ++ s) | None => RPanicR end
  | Some (ItErr e) => RErr e
  | Some (ItOk a b saves) =>
      if (0 <? limit) && (limit <=? i) then
        match seg last tlen with Some s => ROwned (acc ++ s) | None => RPanicR end
      else
        match seg last a with
        | None => RPanicR
        | Some s =>
            match fuel with
            | 0 => RErr EFuel
            | S f =>
                let '(it, st') := nx st in
                replace_loop f limit (S i) it st' b (acc ++ s ++ rep saves)
            end
        end
  end.

Definition try_replacen (limit : nat) : rres :=
  match nx m_init with
  | (None, _) => RBorrowed
  | (first, st) => replace_loop (tlen + 3) limit 0 first st 0 []
  end.

End Api.

(* ----- Captures ----- *)
Definition cap_get (saves : list val) (i : nat) : option (val * val) :=
  match nth_error saves (2 * i) with
  | None => None
  | Some MAXV => None
  | Some lo => match nth_error saves (2 * i + 1) with
               | Some hi => Some (lo, hi)
               | None => None            (* index out of range: a panic in the code *)
               end
  end.
Definition cap_len (saves : list val) : nat := Nat.div2 (length saves).

(* ----- a compiled regex as a search function ----- *)
Definition regex_search (r : regex) (max_st : nat) (limit : option N) (fuel : nat)
           (tx : text) (pos : nat) (skipped : bool) : sres :=
  let cx := {| c_text := tx; c_pos := pos; c_skipped := skipped |} in
  match r with
  | RFancy p n =>
      match fst (vm_run cx p max_st limit fuel) with
      | RMatch sv => SSome sv
      | RNoMatch => SNone
      | RErrStack => SErr EStack
      | RErrLimit => SErr ELimit
      | RPanic => SErr EPanicked
      | ROutOfFuel => SErr EFuel
      end
  | RWrap e n =>
      match search cx e (S (length tx)) with
      | Some caps => SSome caps
      | None => SNone
      end
  end.

(* captures_from_pos truncates to the capture slots *)
Definition regex_ngroups (r : regex) : nat :=
  match r with RFancy _ n => n | RWrap _ n => n end.
