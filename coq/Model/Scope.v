(* Scope.v — executable versions of the hypotheses of the end-to-end theorem (Properties/C01.v), so
   that the checks can report, for every generated pattern, whether it lies inside the theorem.
   Definitions only; [Proofs/ScopeProofs.v] shows that the boolean implies the hypotheses. *)
From FR Require Export Compile.
From Coq Require Import NArith.

(* deterministic blocks: leaves joined by concatenation *)
Fixpoint det (e : expr) : bool :=
  match e with
  | Empty | Any _ | Assertion _ | Literal _ _ | Delegate _ _ _ _ => true
  | Concat es => (fix go (l : list expr) : bool := match l with [] => true | x :: r => det x && go r end) es
  | _ => false
  end.

Definition okinsn (i : insn) : bool :=
  match i with IDelegate es sg eg => forallb det es && (eg =? sg) | _ => true end.

Definition wf_charb (c : list nat) : bool :=
  match c with
  | [] => false
  | b :: r => negb (is_cont b) && forallb is_cont r && (length c =? cp_len b)
  end.

Fixpoint wfeb (e : expr) : bool :=
  match e with
  | Literal v _ => wf_charb v
  | Delegate _ size _ (DClass _) => N.eqb size 1
  | Delegate _ size _ DNlStarEnd => N.eqb size 0
  | Concat es | Alt es => (fix go (l : list expr) : bool := match l with [] => true | x :: r => wfeb x && go r end) es
  | Group c | LookAround c _ | Repeat c _ _ _ | AtomicGroup c => wfeb c
  | Conditional c y n => wfeb c && wfeb y && wfeb n
  | _ => true
  end.

Fixpoint zokb (e : expr) : bool :=
  match e with
  | Delegate _ _ _ DNlStarEnd => false
  | LookAround (Delegate _ _ _ DNlStarEnd) _ => true
  | Concat es | Alt es => (fix go (l : list expr) : bool := match l with [] => true | x :: r => zokb x && go r end) es
  | Group c | LookAround c _ | Repeat c _ _ _ | AtomicGroup c => zokb c
  | Conditional c y n => zokb c && zokb y && zokb n
  | _ => true
  end.

Definition is_behindb (la : lookkind) : bool := match la with LookBehind | LookBehindNeg => true | _ => false end.

Fixpoint rokb (b : bool) (e : expr) : bool :=
  match e with
  | Repeat c _ _ _ => rokb b c
  | Concat es | Alt es => (fix go (l : list expr) : bool := match l with [] => true | x :: r => rokb b x && go r end) es
  | Group c => rokb b c
  | LookAround c la => rokb false c && (negb (is_behindb la) || zokb c)
  | AtomicGroup c => rokb false c
  | Conditional c y n => if b then rokb false c && rokb b y && rokb b n else false
  | _ => true
  end.

Definition okeb (lk : bool) (g : nat) (e : expr) : bool :=
  wfeb e && zokb e && (match acheck g e with None => true | Some _ => false end) && rokb lk e.

Section Scope.
Variable bs : N -> bool.
(* every group a back-reference or a (?(N)..) test reads is in the analyzer's back-reference set *)
Fixpoint refsb (e : expr) : bool :=
  match e with
  | Backref grp | BackrefExistsCondition grp => bs grp
  | Concat es | Alt es => (fix go (l : list expr) : bool := match l with [] => true | x :: r => refsb x && go r end) es
  | Group c | LookAround c _ | Repeat c _ _ _ | AtomicGroup c => refsb c
  | Conditional c y n => refsb c && refsb y && refsb n
  | _ => true
  end.
(* the pattern is compiled to a VM program and lies inside the end-to-end theorem for every
   compiled program (stage 3): nothing is asked of the Delegate instructions *)
Definition in_scope_all (e : expr) : bool :=
  match compile bs (wrap e) with
  | inr p => okeb true 0 (wrap e) && refsb (wrap e)
  | inl _ => false
  end.
(* the pattern is compiled to a VM program and lies inside the end-to-end theorem *)
Definition in_scope (e : expr) : bool :=
  match compile bs (wrap e) with
  | inr p => forallb okinsn (p_body p) && okeb true 0 (wrap e)
  | inl _ => false
  end.
End Scope.

(* no \K under a look-behind ([b = true]: not under one): the scope of the API-layer theorems *)
Definition is_behind_k (la : lookkind) : bool := match la with LookBehind | LookBehindNeg => true | _ => false end.
Fixpoint kokb (b : bool) (e : expr) : bool :=
  match e with
  | KeepOut => b
  | LookAround c la => kokb (b && negb (is_behind_k la)) c
  | Concat es | Alt es => (fix go (l : list expr) : bool := match l with [] => true | x :: r => kokb b x && go r end) es
  | Group c | Repeat c _ _ _ | AtomicGroup c => kokb b c
  | Conditional c y n => kokb b c && kokb b y && kokb b n
  | _ => true
  end.

Definition vm_scope_b (bs : N -> bool) (e : expr) : bool := in_scope_all bs e && kokb true e.
