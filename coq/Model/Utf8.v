(* Utf8.v — byte-level cursor primitives shared by the reference semantics and the VM model:
   codepoint_len (lib.rs:1707), prev_codepoint_ix (lib.rs:1695), next_utf8 (lib.rs:1719),
   plus decoding of the code point at an offset (used by classes, case folding and \b). *)
From FR Require Export Base.
From FR.Generated Require Consts.

Definition text := list nat.          (* bytes, each < 256 *)

Definition cp_len (b : nat) : nat :=
  if b <? Consts.CP_LEN_T1 then 1
  else if b <? Consts.CP_LEN_T2 then 2
  else if b <? Consts.CP_LEN_T3 then 3 else 4.

(* (b as i8) >= -0x40  <=>  b is not a continuation byte 0x80..0xBF *)
Definition is_cont (b : nat) : bool := (128 <=? b) && (b <? 192).

(* prev_codepoint_ix; None = panic (index underflow / out of range). Precondition ix > 0. *)
Fixpoint prev_cp_go (t : text) (fuel ix : nat) : option nat :=
  match fuel with
  | 0 => None
  | S f =>
      match ix with
      | 0 => None
      | S ix' =>
          match nth_error t ix' with
          | None => None
          | Some b => if is_cont b then prev_cp_go t f ix' else Some ix'
          end
      end
  end.
Definition prev_cp (t : text) (ix : nat) : option nat := prev_cp_go t (S ix) ix.

(* next_utf8 *)
Definition next_utf8 (t : text) (i : nat) : nat :=
  match nth_error t i with
  | None => i + 1
  | Some b => i + cp_len b
  end.

(* the code point starting at ix and its byte length; None at end of text *)
Definition decode_at (t : text) (ix : nat) : option (nat * nat) :=
  match nth_error t ix with
  | None => None
  | Some b0 =>
      let cont k := match nth_error t (ix + k) with Some b => b mod 64 | None => 0 end in
      if b0 <? 128 then Some (b0, 1)
      else if b0 <? 224 then Some ((b0 mod 32) * 64 + cont 1, 2)
      else if b0 <? 240 then Some (((b0 mod 16) * 64 + cont 1) * 64 + cont 2, 3)
      else Some ((((b0 mod 8) * 64 + cont 1) * 64 + cont 2) * 64 + cont 3, 4)
  end.

(* the code point ending just before ix *)
Definition decode_before (t : text) (ix : nat) : option nat :=
  match ix with
  | 0 => None
  | _ => match prev_cp t ix with
         | Some j => option_map fst (decode_at t j)
         | None => None
         end
  end.

(* Rust's str::is_char_boundary at the byte level *)
Definition is_boundary (t : text) (ix : nat) : bool :=
  if ix =? length t then true
  else match nth_error t ix with Some b => negb (is_cont b) | None => false end.

(* s.as_bytes()[ix..end] == lit  with  end <= s.len()  (matches_literal, vm.rs:415) *)
Fixpoint lit_at (t : text) (ix : nat) (lit : list nat) : bool :=
  match lit with
  | [] => ix <=? length t
  | c :: r => match nth_error t ix with
              | Some b => (b =? c) && lit_at t (S ix) r
              | None => false
              end
  end.

Definition slice (t : text) (lo hi : nat) : list nat := firstn (hi - lo) (skipn lo t).
