(* Compile.v — port of compile.rs as a pure function: code is produced for a given start pc
   and next free slot, so no back-patching is needed; jump targets are computed from the
   lengths of the already compiled blocks.  Decision for decision it follows
   Compiler::visit / compile_concat / compile_repeat / compile_lookaround / compile_conditional /
   compile_delegates, and the order of newsave() calls, so that the listing can be compared
   with the real compiler's output instruction by instruction (tier T2). *)
From FR Require Export Vm.

Inductive cerr := CLookBehindNotConst | CFeatureNotYetSupported.

Definition cres := (list insn * nat)%type.       (* code, next free slot *)

Definition bindc {A} (r : cerr + A) (f : A -> cerr + cres) : cerr + cres :=
  match r with inl e => inl e | inr a => f a end.

(* compile_delegate: one whole easy sub-expression *)
Definition delegate1 (e : expr) (g : nat) : list insn :=
  if is_literal e then [ILit (push_literal e)] else [IDelegate [e] g (g + ngroups e)].

(* compile_delegates: a run of easy siblings *)
Definition delegates (es : list expr) (g : nat) : list insn :=
  match es with
  | [] => []
  | _ =>
      if forallb is_literal es then [ILit (flat_map push_literal es)]
      else [IDelegate es g (g + ngroups_list es)]
  end.

(* layout of compile_alt: all but the last alternative get a Split before and a Jmp after *)
Fixpoint alt_layout (pc end_pc : nat) (codes : list (list insn)) : list insn :=
  match codes with
  | [] => []
  | [c] => c
  | c :: rest =>
      ISplit (pc + 1) (pc + 1 + length c + 1) :: c ++ IJmp end_pc
        :: alt_layout (pc + 1 + length c + 1) end_pc rest
  end.

Fixpoint alt_size (codes : list (list insn)) : nat :=
  match codes with
  | [] => 0
  | [c] => length c
  | c :: rest => 1 + length c + 1 + alt_size rest
  end.

Definition prefix_count (bs : N -> bool) (g : nat) (es : list expr) : nat :=
  (fix go (g : nat) (l : list expr) : nat :=
     match l with
     | [] => 0
     | x :: r => if const_size x && negb (hard bs g x) then S (go (g + ngroups x) r) else 0
     end) g es.

(* children with their first group number *)
Fixpoint with_groups (g : nat) (es : list expr) : list (expr * nat) :=
  match es with [] => [] | x :: r => (x, g) :: with_groups (g + ngroups x) r end.

Fixpoint take_while_count {A} (f : A -> bool) (l : list A) : nat :=
  match l with [] => 0 | x :: r => if f x then S (take_while_count f r) else 0 end.

Section Compile.
Variable bs : N -> bool.

Fixpoint visit (e : expr) (g : nat) (hardctx : bool) (pc ns : nat) {struct e} : cerr + cres :=
  if negb hardctx && negb (hard bs g e) then inr (delegate1 e g, ns) else
  match e with
  | Empty => inr ([], ns)
  | Literal v casei => if casei then inr (delegate1 e g, ns) else inr ([ILit v], ns)
  | Any true => inr ([IAny], ns)
  | Any false => inr ([IAnyNoNL], ns)
  | Concat es =>
      let kids := with_groups g es in
      let prefix_end := prefix_count bs g es in
      let rest := skipn prefix_end kids in
      let suffix_len :=
        if hardctx
        then take_while_count (fun p => const_size (fst p) && negb (hard bs (snd p) (fst p))) (rev rest)
        else take_while_count (fun p => negb (hard bs (snd p) (fst p))) (rev rest) in
      let suffix_begin := length es - suffix_len in
      let pre := delegates (firstn prefix_end es) g in
      let mid :=
        (fix go (i g pc ns : nat) (l : list expr) : cerr + cres :=
           match l with
           | [] => inr ([], ns)
           | x :: r =>
               if (prefix_end <=? i) && (i <? suffix_begin) then
                 bindc (visit x g true pc ns) (fun '(c, ns1) =>
                 bindc (go (S i) (g + ngroups x) (pc + length c) ns1 r) (fun '(c2, ns2) =>
                 inr (c ++ c2, ns2)))
               else go (S i) (g + ngroups x) pc ns r
           end) 0 g (pc + length pre) ns es in
      bindc mid (fun '(cm, ns1) =>
        let suf := skipn suffix_begin kids in
        let sufg := match suf with (_, g') :: _ => g' | [] => g end in
        inr (pre ++ cm ++ delegates (map fst suf) sufg, ns1))
  | Alt es =>
      let codes :=
        (fix go (g pc ns : nat) (l : list expr) : cerr + (list (list insn) * nat) :=
           match l with
           | [] => inr ([], ns)
           | [x] =>
               match visit x g hardctx pc ns with
               | inl er => inl er
               | inr (c, ns1) => inr ([c], ns1)
               end
           | x :: ((_ :: _) as r) =>
               match visit x g hardctx (pc + 1) ns with
               | inl er => inl er
               | inr (c, ns1) =>
                   match go (g + ngroups x) (pc + 1 + length c + 1) ns1 r with
                   | inl er => inl er
                   | inr (cs, ns2) => inr (c :: cs, ns2)
                   end
               end
           end) g pc ns es in
      match codes with
      | inl er => inl er
      | inr (cs, ns1) => inr (alt_layout pc (pc + alt_size cs) cs, ns1)
      end
  | Group c =>
      bindc (visit c (S g) hardctx (pc + 1) ns) (fun '(code, ns1) =>
      inr (ISave (g * 2) :: code ++ [ISave (g * 2 + 1)], ns1))
  | Repeat c lo hi greedy =>
      if N.ltb hi lo then inl CFeatureNotYetSupported else      (* compile_repeat: lo > hi *)
      if N.eqb lo 0 && N.eqb hi 1 then
        bindc (visit c g hardctx (pc + 1) ns) (fun '(code, ns1) =>
        let next := pc + 1 + length code in
        inr ((if greedy then ISplit (pc + 1) next else ISplit next (pc + 1)) :: code, ns1))
      else
      let hardctx' := hardctx || hard bs g e in
      if N.eqb hi usize_max && N.eqb (min_size c) 0 then
        let rep := ns in let chk := ns + 1 in
        bindc (visit c g hardctx' (pc + 2) (ns + 2)) (fun '(code, ns1) =>
        let next := pc + 2 + length code + 1 in
        inr (ISave0 rep
             :: (if greedy then IRepeatEpsilonGr lo next rep chk else IRepeatEpsilonNg lo next rep chk)
             :: code ++ [IJmp (pc + 1)], ns1))
      else if N.eqb lo 0 && N.eqb hi usize_max then
        bindc (visit c g hardctx' (pc + 1) ns) (fun '(code, ns1) =>
        let next := pc + 1 + length code + 1 in
        inr ((if greedy then ISplit (pc + 1) next else ISplit next (pc + 1))
             :: code ++ [IJmp pc], ns1))
      else if N.eqb lo 1 && N.eqb hi usize_max then
        bindc (visit c g hardctx' pc ns) (fun '(code, ns1) =>
        let next := pc + length code + 1 in
        inr (code ++ [if greedy then ISplit pc next else ISplit next pc], ns1))
      else
        let rep := ns in
        bindc (visit c g hardctx' (pc + 2) (ns + 1)) (fun '(code, ns1) =>
        let next := pc + 2 + length code + 1 in
        inr (ISave0 rep
             :: (if greedy then IRepeatGr lo hi next rep else IRepeatNg lo hi next rep)
             :: code ++ [IJmp (pc + 1)], ns1))
  | LookAround c la =>
      (* compile_lookaround_inner *)
      let inner (x : expr) (gx pc ns : nat) : cerr + cres :=
        match la with
        | LookBehind | LookBehindNeg =>
            if const_size x then
              bindc (visit x gx false (pc + 1) ns) (fun '(code, ns1) =>
              inr (IGoBack (min_size x) :: code, ns1))
            else inl CLookBehindNotConst
        | _ => visit x gx false pc ns
        end in
      let positive (x : expr) (gx pc ns : nat) : cerr + cres :=
        let h := hard bs gx x in
        bindc (inner x gx (pc + 1 + (if h then 1 else 0)) (ns + 1)) (fun '(code, ns1) =>
        inr (ISave ns :: (if h then [IBeginAtomic] else []) ++ code
               ++ (if h then [IEndAtomic] else []) ++ [IRestore ns], ns1)) in
      let negative (x : expr) (gx pc ns : nat) : cerr + cres :=
        bindc (inner x gx (pc + 1) ns) (fun '(code, ns1) =>
        inr (ISplit (pc + 1) (pc + 1 + length code + 1) :: code ++ [IFailNegativeLookAround], ns1)) in
      match la, c with
      | LookBehind, Alt es =>
          if const_size c then positive c g pc ns else
          let codes :=
            (fix go (g pc ns : nat) (l : list expr) : cerr + (list (list insn) * nat) :=
               match l with
               | [] => inr ([], ns)
               | [x] =>
                   match positive x g pc ns with
                   | inl er => inl er
                   | inr (cd, ns1) => inr ([cd], ns1)
                   end
               | x :: ((_ :: _) as r) =>
                   match positive x g (pc + 1) ns with
                   | inl er => inl er
                   | inr (cd, ns1) =>
                       match go (g + ngroups x) (pc + 1 + length cd + 1) ns1 r with
                       | inl er => inl er
                       | inr (cs, ns2) => inr (cd :: cs, ns2)
                       end
                   end
               end) g pc ns es in
          match codes with
          | inl er => inl er
          | inr (cs, ns1) => inr (alt_layout pc (pc + alt_size cs) cs, ns1)
          end
      | LookBehindNeg, Alt es =>
          if const_size c then negative c g pc ns else
          (fix go (g pc ns : nat) (l : list expr) : cerr + cres :=
             match l with
             | [] => inr ([], ns)
             | x :: r =>
                 bindc (negative x g pc ns) (fun '(cd, ns1) =>
                 bindc (go (g + ngroups x) (pc + length cd) ns1 r) (fun '(c2, ns2) =>
                 inr (cd ++ c2, ns2)))
             end) g pc ns es
      | LookAhead, _ | LookBehind, _ => positive c g pc ns
      | LookAheadNeg, _ | LookBehindNeg, _ => negative c g pc ns
      end
  | Backref grp => inr ([IBackref (N.to_nat grp * 2)], ns)
  | BackrefExistsCondition grp => inr ([IBackrefExistsCondition grp], ns)
  | AtomicGroup c =>
      bindc (visit c g false (pc + 1) ns) (fun '(code, ns1) =>
      inr (IBeginAtomic :: code ++ [IEndAtomic], ns1))
  | Delegate _ _ _ _ => inr (delegate1 e g, ns)
  | Assertion a => inr ([IAssertion a], ns)
  | KeepOut => inr ([ISave 0], ns)
  | ContinueFromPreviousMatchEnd => inr ([IContinueFromPreviousMatchEnd], ns)
  | Conditional c y n =>
      (* BeginAtomic; Split; cond; EndAtomic; yes; Jmp; no *)
      bindc (visit c g hardctx (pc + 2) ns) (fun '(cc, ns1) =>
      let pc_y := pc + 2 + length cc + 1 in
      bindc (visit y (g + ngroups c) hardctx pc_y ns1) (fun '(cy, ns2) =>
      let pc_n := pc_y + length cy + 1 in
      bindc (visit n (g + ngroups c + ngroups y) hardctx pc_n ns2) (fun '(cn, ns3) =>
      inr (IBeginAtomic :: ISplit (pc + 2) pc_n :: cc ++ IEndAtomic :: cy
             ++ IJmp (pc_n + length cn) :: cn, ns3))))
  | SubroutineCall _ => inl CFeatureNotYetSupported
  end.

(* compile(): the analysed (wrapped) tree -> program *)
Definition compile (e : expr) : cerr + prog :=
  match visit e 0 false 0 (ngroups e * 2) with
  | inl er => inl er
  | inr (code, ns) => inr {| p_body := code ++ [IEnd]; p_nsaves := ns |}
  end.

(* Regex::new_options after parsing *)
Inductive regex :=
| RWrap (e : expr) (n_groups : nat)          (* whole pattern handed to the automata engine *)
| RFancy (p : prog) (n_groups : nat).

Inductive newerr := NAnalyze (er : aerr) | NCompile (er : cerr).

Definition regex_new (e : expr) : newerr + regex :=
  let w := wrap e in
  match acheck 0 w with
  | Some er => inl (NAnalyze er)
  | None =>
      if hard bs 1 e then
        match compile w with
        | inl er => inl (NCompile er)
        | inr p => inr (RFancy p (ngroups w))
        end
      else inr (RWrap e (ngroups w))
  end.

End Compile.
