(* Ast.v — mirror of the Expr / Assertion / LookAround types of lib.rs:1391-1480.
   Pattern numerals are binary N; usize::MAX is the constant [usize_max]. *)
From Coq Require Export NArith.
From FR Require Export Base Utf8.
From FR.Generated Require Consts.
From Coq Require Import String.

Definition usize_max : N := 18446744073709551615%N.

Inductive assertion :=
| StartText | EndText | StartLine (crlf : bool) | EndLine (crlf : bool)
| LeftWordBoundary | RightWordBoundary | WordBoundary | NotWordBoundary.

Inductive lookkind := LookAhead | LookAheadNeg | LookBehind | LookBehindNeg.

(* What an Expr::Delegate node (a character class or the \Z helper) matches is decided by
   regex-automata; the model carries the answer for the harness alphabet as oracle data. *)
Inductive dkind :=
| DClass (cps : list nat)      (* the code points of the harness alphabet the class matches *)
| DNlStarEnd.                  (* the pattern "\n*$" used for \Z *)

Inductive expr :=
| Empty
| Any (newline : bool)
| Assertion (a : assertion)
| Literal (val : list nat) (casei : bool)
| Concat (es : list expr)
| Alt (es : list expr)
| Group (e : expr)
| LookAround (e : expr) (la : lookkind)
| Repeat (e : expr) (lo hi : N) (greedy : bool)
| Delegate (inner : list nat) (size : N) (casei : bool) (k : dkind)
| Backref (g : N)
| AtomicGroup (e : expr)
| KeepOut
| ContinueFromPreviousMatchEnd
| BackrefExistsCondition (g : N)
| Conditional (c t f : expr)
| SubroutineCall (g : N).

(* the variant lists of the source are the ones this model knows (regenerated every run) *)
Open Scope string_scope.
Example expr_variants_known :
  Consts.EXPR_VARIANTS =
  ["Empty"; "Any"; "Assertion"; "Literal"; "Concat"; "Alt"; "Group"; "LookAround"; "Repeat";
   "Delegate"; "Backref"; "AtomicGroup"; "KeepOut"; "ContinueFromPreviousMatchEnd";
   "BackrefExistsCondition"; "Conditional"; "SubroutineCall"].
Proof. reflexivity. Qed.
Example assertion_variants_known :
  Consts.ASSERTION_VARIANTS =
  ["StartText"; "EndText"; "StartLine"; "EndLine"; "LeftWordBoundary"; "RightWordBoundary";
   "WordBoundary"; "NotWordBoundary"].
Proof. reflexivity. Qed.
Example lookaround_variants_known :
  Consts.LOOKAROUND_VARIANTS = ["LookAhead"; "LookAheadNeg"; "LookBehind"; "LookBehindNeg"].
Proof. reflexivity. Qed.
Example hard_assertions_known :
  Consts.HARD_ASSERTIONS =
  ["LeftWordBoundary"; "RightWordBoundary"; "WordBoundary"; "NotWordBoundary"].
Proof. reflexivity. Qed.
Close Scope string_scope.
Import List.

Definition assertion_is_hard (a : assertion) : bool :=
  match a with
  | LeftWordBoundary | RightWordBoundary | WordBoundary | NotWordBoundary => true
  | _ => false
  end.

(* nested induction principle: children of Concat / Alt satisfy P *)
Section ExprInd.
Variable P : expr -> Prop.
Hypothesis HEmpty : P Empty.
Hypothesis HAny : forall nl, P (Any nl).
Hypothesis HAssertion : forall a, P (Assertion a).
Hypothesis HLiteral : forall v c, P (Literal v c).
Hypothesis HConcat : forall es, Forall P es -> P (Concat es).
Hypothesis HAlt : forall es, Forall P es -> P (Alt es).
Hypothesis HGroup : forall e, P e -> P (Group e).
Hypothesis HLook : forall e la, P e -> P (LookAround e la).
Hypothesis HRepeat : forall e lo hi gr, P e -> P (Repeat e lo hi gr).
Hypothesis HDelegate : forall i s c k, P (Delegate i s c k).
Hypothesis HBackref : forall g, P (Backref g).
Hypothesis HAtomic : forall e, P e -> P (AtomicGroup e).
Hypothesis HKeepOut : P KeepOut.
Hypothesis HCont : P ContinueFromPreviousMatchEnd.
Hypothesis HBEC : forall g, P (BackrefExistsCondition g).
Hypothesis HCond : forall c t f, P c -> P t -> P f -> P (Conditional c t f).
Hypothesis HSub : forall g, P (SubroutineCall g).

Fixpoint expr_ind' (e : expr) : P e :=
  let fix go (es : list expr) : Forall P es :=
    match es with
    | [] => Forall_nil P
    | x :: r => Forall_cons x (expr_ind' x) (go r)
    end in
  match e with
  | Empty => HEmpty
  | Any nl => HAny nl
  | Assertion a => HAssertion a
  | Literal v c => HLiteral v c
  | Concat es => HConcat es (go es)
  | Alt es => HAlt es (go es)
  | Group e => HGroup e (expr_ind' e)
  | LookAround e la => HLook e la (expr_ind' e)
  | Repeat e lo hi gr => HRepeat e lo hi gr (expr_ind' e)
  | Delegate i s c k => HDelegate i s c k
  | Backref g => HBackref g
  | AtomicGroup e => HAtomic e (expr_ind' e)
  | KeepOut => HKeepOut
  | ContinueFromPreviousMatchEnd => HCont
  | BackrefExistsCondition g => HBEC g
  | Conditional c t f => HCond c t f (expr_ind' c) (expr_ind' t) (expr_ind' f)
  | SubroutineCall g => HSub g
  end.
End ExprInd.
