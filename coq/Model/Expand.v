(* Expand.v — port of expand.rs (Expander::exec / check / escape and the writers) and of
   parse_id / parse_decimal (parse.rs:878-923) on UTF-8 byte strings.
   is_alphanumeric is the oracle table [is_word_cp] minus nothing: identifier characters are
   alphanumerics or '_' (the same set on the harness alphabet). *)
From FR Require Export Ast Sem Api.

Definition is_id_cp (cp : nat) : bool := is_word_cp cp.
Definition is_digit_b (b : nat) : bool := (48 <=? b) && (b <=? 57).

Fixpoint starts_with (s pre : list nat) : bool :=
  match pre, s with
  | [], _ => true
  | p :: pr, x :: sr => (x =? p) && starts_with sr pr
  | _ :: _, [] => false
  end.

(* length in bytes of the longest prefix of identifier characters; fuel = length s *)
Fixpoint id_run (fuel : nat) (s : list nat) (i : nat) : nat :=
  match fuel with
  | 0 => i
  | S f => match decode_at s i with
           | Some (cp, len) => if is_id_cp cp then id_run f s (i + len) else i
           | None => i
           end
  end.

(* parse_id with allow_relative = false; returns (id, skip) *)
Definition parse_id (s open close : list nat) : option (list nat * nat) :=
  if starts_with s open then
    let id_start := length open in
    let body := skipn id_start s in
    let n := id_run (length body) body 0 in
    let id_len :=
      if n <? length body then
        (if starts_with (skipn n body) close then Some n else None)
      else (match close with [] => Some (length s) | _ => None end) in
    match id_len with
    | Some 0 => None
    | Some l =>
        let id_end := id_start + l in
        if id_end <=? length s then Some (slice s id_start id_end, id_end + length close) else None
    | None => None
    end
  else None.

Fixpoint digit_run (s : list nat) : nat :=
  match s with b :: r => if is_digit_b b then S (digit_run r) else 0 | [] => 0 end.

Definition dec_value (ds : list nat) : N :=
  fold_left (fun acc b => (acc * 10 + N.of_nat (b - 48))%N) ds 0%N.

(* parse_decimal(s, 0): None when there is no digit or the value does not fit in usize *)
Definition parse_decimal0 (s : list nat) : option (nat * N) :=
  let n := digit_run s in
  if n =? 0 then None else
  let v := dec_value (firstn n s) in
  if N.leb v usize_max then Some (n, v) else None.

Record expander := { sub_char : nat; x_open : list nat; x_close : list nat; undelimited : bool }.
Definition expander_default : expander :=
  {| sub_char := 36; x_open := [123]; x_close := [125]; undelimited := true |}.
Definition expander_python : expander :=
  {| sub_char := 92; x_open := [103; 60]; x_close := [62]; undelimited := false |}.

Inductive step := StChar (bytes : list nat) | StName (id : list nat) | StNum (n : N) | StError.

(* Expander::exec: the sequence of steps fed to the callback.  The template is valid UTF-8
   (a Rust &str), so a character equals the (ASCII) substitution character iff its lead byte
   does; the iteration steps by the announced length of the lead byte. *)
Fixpoint exec_steps (x : expander) (fuel : nat) (s : list nat) : list step :=
  match fuel with
  | 0 => []
  | S f =>
      match s with
      | [] => []
      | b :: _ =>
          let len := cp_len b in
          let tail := skipn len s in
          if b =? sub_char x then
            if starts_with tail [sub_char x] then
              StChar [sub_char x] :: exec_steps x f (skipn 1 tail)
            else
              match (match parse_id tail (x_open x) (x_close x) with
                     | Some r => Some r
                     | None => if undelimited x then parse_id tail [] [] else None
                     end) with
              | Some (id, skip) => StName id :: exec_steps x f (skipn skip tail)
              | None =>
                  match parse_decimal0 tail with
                  | Some (skip, num) => StNum num :: exec_steps x f (skipn skip tail)
                  | None => StError :: StChar [sub_char x] :: exec_steps x f tail
                  end
              end
          else StChar (firstn len s) :: exec_steps x f tail
      end
  end.

Definition steps (x : expander) (template : list nat) : list step :=
  exec_steps x (length template) template.

(* captures: text, truncated saves, and the name -> index map *)
Record caps := { cp_text : text; cp_saves : list val; cp_names : list (list nat * nat) }.

Fixpoint bytes_eqb (a b : list nat) : bool :=
  match a, b with
  | [], [] => true
  | x :: r, y :: s => (x =? y) && bytes_eqb r s
  | _, _ => false
  end.

Definition lookup_name (names : list (list nat * nat)) (id : list nat) : option nat :=
  match find (fun p => bytes_eqb (fst p) id) names with
  | Some p => Some (snd p)
  | None => None
  end.

Definition group_text (c : caps) (i : nat) : option (list nat) :=
  match cap_get (cp_saves c) i with
  | Some (V lo, V hi) => Some (slice (cp_text c) lo hi)
  | _ => None
  end.

Definition group_text_n (c : caps) (n : N) : option (list nat) :=
  if N.ltb n (N.of_nat (length (cp_saves c))) then group_text c (N.to_nat n) else None.

(* name.parse::<usize>(): all ASCII digits (identifier characters exclude signs) *)
Definition parse_usize (id : list nat) : option N :=
  if forallb is_digit_b id && negb (length id =? 0) then
    let v := dec_value id in if N.leb v usize_max then Some v else None
  else None.

Definition expand_step (c : caps) (st : step) : list nat :=
  match st with
  | StChar b => b
  | StName id =>
      match lookup_name (cp_names c) id with
      | Some i => match group_text c i with Some t => t | None => [] end
      | None =>
          match parse_usize id with
          | Some n => match group_text_n c n with Some t => t | None => [] end
          | None => []
          end
      end
  | StNum n => match group_text_n c n with Some t => t | None => [] end
  | StError => []
  end.

Definition expansion (x : expander) (template : list nat) (c : caps) : list nat :=
  flat_map (expand_step c) (steps x template).

(* the name step falls back to the index only when the NAME lookup finds no group at all;
   a named group that did not participate yields nothing and does not fall back *)
Definition expand_step_doc := expand_step.

Inductive xerr := XNamedBackrefOnly | XInvalidBackref | XParseError.

Definition check_num (names : list (list nat * nat)) (captures_len : nat) (n : N) : option xerr :=
  if N.eqb n 0 then None
  else match names with
       | _ :: _ => Some XNamedBackrefOnly
       | [] => if N.ltb n (N.of_nat captures_len) then None else Some XInvalidBackref
       end.

Fixpoint check_steps (names : list (list nat * nat)) (captures_len : nat) (l : list step)
  : option xerr :=
  match l with
  | [] => None
  | st :: r =>
      let e := match st with
               | StChar _ => None
               | StName id =>
                   match lookup_name names id with
                   | Some _ => None
                   | None => match parse_usize id with
                             | Some n => check_num names captures_len n
                             | None => Some XInvalidBackref
                             end
                   end
               | StNum n => check_num names captures_len n
               | StError => Some XParseError
               end in
      match e with Some er => Some er | None => check_steps names captures_len r end
  end.

Definition check (x : expander) (template : list nat) (names : list (list nat * nat))
           (captures_len : nat) : option xerr :=
  check_steps names captures_len (steps x template).

(* Expander::escape: double the substitution character; (result, borrowed?) *)
Fixpoint double_sub (sc : nat) (s : list nat) : list nat :=
  match s with
  | [] => []
  | b :: r => if b =? sc then sc :: sc :: double_sub sc r else b :: double_sub sc r
  end.
Definition x_escape (x : expander) (s : list nat) : list nat * bool :=
  if existsb (Nat.eqb (sub_char x)) s then (double_sub (sub_char x) s, false) else (s, true).
