(* State.v — the VM's backtracking state exactly as written in vm.rs:237-398
   (copy-on-write capture log, branch stack, the "explicit stack" that lives
   inside the save vector above [explicit_sp]) and the whole-state-copy
   reference machine the comment at vm.rs:255-261 describes.
   Only definitions live here (so the model still runs when a proof breaks). *)
From FR Require Export Base.

(* ---------- concrete state (L0) ---------- *)

Record branch := { b_pc : nat; b_ix : nat; b_ns : nat }.

(* [stack]: top first (Rust keeps the top at the end of the Vec).
   [old]: newest first (Rust keeps the newest at the end of the Vec). *)
Record state := {
  saves : list val;
  stack : list branch;
  old : list (nat * val);
  ns : nat;
  esp : nat;
  max_stack : nat
}.

Definition st_new (n_saves max_st : nat) : state :=
  {| saves := repeat MAXV n_saves; stack := []; old := []; ns := 0;
     esp := n_saves; max_stack := max_st |}.

Definition set_saves (s : state) (sv : list val) : state :=
  {| saves := sv; stack := stack s; old := old s; ns := ns s;
     esp := esp s; max_stack := max_stack s |}.

(* undo a log segment, newest entry first *)
Fixpoint undo (seg : list (nat * val)) (sv : list val) : list val :=
  match seg with
  | [] => sv
  | (sl, v) :: r => undo r (upd sv sl v)
  end.

(* State::push — None is Err(StackOverflow); the state is unchanged then *)
Definition st_push (s : state) (pc ix : nat) : option state :=
  if length (stack s) <? max_stack s then
    Some {| saves := saves s;
            stack := {| b_pc := pc; b_ix := ix; b_ns := ns s |} :: stack s;
            old := old s; ns := 0; esp := esp s; max_stack := max_stack s |}
  else None.

Definition slots_in (seg : list (nat * val)) (len : nat) : bool :=
  forallb (fun e => fst e <? len) seg.

(* State::pop — None is a panic (unwrap on an empty Vec / index out of range) *)
Definition st_pop (s : state) : option (state * nat * nat) :=
  if ns s <=? length (old s) then
    if slots_in (firstn (ns s) (old s)) (length (saves s)) then
      match stack s with
      | [] => None
      | b :: r =>
          Some ({| saves := undo (firstn (ns s) (old s)) (saves s);
                   stack := r; old := skipn (ns s) (old s); ns := b_ns b;
                   esp := esp s; max_stack := max_stack s |}, b_pc b, b_ix b)
      end
    else None
  else None.

(* State::save — None is a panic *)
Definition st_save (s : state) (slot : nat) (v : val) : option state :=
  if ns s <=? length (old s) then
    match nth_error (saves s) slot with
    | None => None
    | Some cur =>
        if existsb (fun e => fst e =? slot) (firstn (ns s) (old s))
        then Some (set_saves s (upd (saves s) slot v))
        else Some {| saves := upd (saves s) slot v; stack := stack s;
                     old := (slot, cur) :: old s; ns := S (ns s);
                     esp := esp s; max_stack := max_stack s |}
    end
  else None.

Definition st_get (s : state) (slot : nat) : option val := nth_error (saves s) slot.

(* State::stack_push *)
Definition st_stack_push (s : state) (v : val) : option state :=
  let s1 := if length (saves s) =? esp s
            then set_saves s (saves s ++ [V (esp s + 1)]) else s in
  match nth_error (saves s1) (esp s) with
  | Some (V sp) =>
      match (if length (saves s1) =? sp
             then Some (set_saves s1 (saves s1 ++ [v]))
             else st_save s1 sp v) with
      | Some s2 => st_save s2 (esp s) (V (sp + 1))
      | None => None
      end
  | _ => None
  end.

(* State::stack_pop *)
Definition st_stack_pop (s : state) : option (state * val) :=
  match nth_error (saves s) (esp s) with
  | Some (V (S sp)) =>
      match nth_error (saves s) sp with
      | Some r =>
          match st_save s (esp s) (V sp) with
          | Some s' => Some (s', r)
          | None => None
          end
      | None => None
      end
  | _ => None
  end.

Definition st_count (s : state) : nat := length (stack s).

(* State::backtrack_cut.  The swap loop keeps, in their original order, the
   entries of the discarded segments whose slot has not been seen yet
   (entries between oldsave_ix and ix are always rejected ones, so the swaps
   are a stable filter); [keep_new] is that filter, oldest entry first. *)
Fixpoint keep_new (seen : list nat) (l : list (nat * val)) : list (nat * val) :=
  match l with
  | [] => []
  | (sl, v) :: r =>
      if existsb (Nat.eqb sl) seen then keep_new seen r
      else (sl, v) :: keep_new (sl :: seen) r
  end.

Definition seg_total (n : nat) (d : list branch) : nat :=
  n + fold_right (fun b a => b_ns b + a) 0 d.

Definition dummy_branch := {| b_pc := 0; b_ix := 0; b_ns := 0 |}.

Definition st_cut (s : state) (count : nat) : option state :=
  let m := length (stack s) in
  if m =? count then Some s else
  if m <? count then None else
  let d := firstn (m - count) (stack s) in           (* discarded, top first *)
  let t := seg_total (ns s) d in
  if length (old s) <? t then None else
  let region := rev (firstn t (old s)) in             (* oldest first *)
  let base := firstn (b_ns (last d dummy_branch)) region in
  let rest := skipn (length base) region in
  let merged := base ++ keep_new (map fst base) rest in
  Some {| saves := saves s; stack := skipn (m - count) (stack s);
          old := rev merged ++ skipn t (old s); ns := length merged;
          esp := esp s; max_stack := max_stack s |}.

(* ---------- operations and histories ---------- *)

Inductive op :=
| OPush (pc ix : nat) | OPop | OSave (slot : nat) (v : val) | OGet (slot : nat)
| OStackPush (v : val) | OStackPop | OCount | OCut (count : nat).

Inductive out :=
| ONone | OOk (b : bool) | OPcIx (pc ix : nat) | OVal (v : val) | ONat (n : nat).

(* None = panic *)
Definition exec (s : state) (o : op) : option (state * out) :=
  match o with
  | OPush pc ix =>
      match st_push s pc ix with
      | Some s' => Some (s', OOk true)
      | None => Some (s, OOk false)
      end
  | OPop => match st_pop s with Some (s', pc, ix) => Some (s', OPcIx pc ix) | None => None end
  | OSave sl v => match st_save s sl v with Some s' => Some (s', ONone) | None => None end
  | OGet sl => match st_get s sl with Some v => Some (s, OVal v) | None => None end
  | OStackPush v => match st_stack_push s v with Some s' => Some (s', ONone) | None => None end
  | OStackPop => match st_stack_pop s with Some (s', v) => Some (s', OVal v) | None => None end
  | OCount => Some (s, ONat (st_count s))
  | OCut c => match st_cut s c with Some s' => Some (s', ONone) | None => None end
  end.

Fixpoint exec_all (s : state) (ops : list op) : option (state * list out) :=
  match ops with
  | [] => Some (s, [])
  | o :: r =>
      match exec s o with
      | None => None
      | Some (s', x) =>
          match exec_all s' r with
          | None => None
          | Some (s'', xs) => Some (s'', x :: xs)
          end
      end
  end.

(* ---------- reference machine: every alternative holds whole copies ---------- *)

Record alt := { a_pc : nat; a_ix : nat; a_slots : list val; a_aux : list val }.
Record rstate := {
  r_slots : list val;       (* the n_saves slots: captures, counters, saved positions *)
  r_aux : list val;         (* auxiliary stack, bottom first *)
  r_alts : list alt;        (* pending alternatives, newest first *)
  r_max : nat
}.

Definition r_new (n_saves max_st : nat) : rstate :=
  {| r_slots := repeat MAXV n_saves; r_aux := []; r_alts := []; r_max := max_st |}.

Definition rexec (r : rstate) (o : op) : option (rstate * out) :=
  match o with
  | OPush pc ix =>
      if length (r_alts r) <? r_max r then
        Some ({| r_slots := r_slots r; r_aux := r_aux r;
                 r_alts := {| a_pc := pc; a_ix := ix; a_slots := r_slots r; a_aux := r_aux r |}
                           :: r_alts r;
                 r_max := r_max r |}, OOk true)
      else Some (r, OOk false)
  | OPop =>
      match r_alts r with
      | [] => None
      | a :: rest =>
          Some ({| r_slots := a_slots a; r_aux := a_aux a; r_alts := rest; r_max := r_max r |},
                OPcIx (a_pc a) (a_ix a))
      end
  | OSave sl v =>
      if sl <? length (r_slots r) then
        Some ({| r_slots := upd (r_slots r) sl v; r_aux := r_aux r;
                 r_alts := r_alts r; r_max := r_max r |}, ONone)
      else None
  | OGet sl =>
      match nth_error (r_slots r) sl with Some v => Some (r, OVal v) | None => None end
  | OStackPush v =>
      Some ({| r_slots := r_slots r; r_aux := r_aux r ++ [v];
               r_alts := r_alts r; r_max := r_max r |}, ONone)
  | OStackPop =>
      match rev (r_aux r) with
      | [] => None
      | v :: rest =>
          Some ({| r_slots := r_slots r; r_aux := rev rest;
                   r_alts := r_alts r; r_max := r_max r |}, OVal v)
      end
  | OCount => Some (r, ONat (length (r_alts r)))
  | OCut c =>
      if length (r_alts r) <? c then None else
      Some ({| r_slots := r_slots r; r_aux := r_aux r;
               r_alts := skipn (length (r_alts r) - c) (r_alts r);
               r_max := r_max r |}, ONone)
  end.

Fixpoint rexec_all (r : rstate) (ops : list op) : option (rstate * list out) :=
  match ops with
  | [] => Some (r, [])
  | o :: rest =>
      match rexec r o with
      | None => None
      | Some (r', x) =>
          match rexec_all r' rest with
          | None => None
          | Some (r'', xs) => Some (r'', x :: xs)
          end
      end
  end.

(* ---------- abstraction ---------- *)

(* the auxiliary stack stored in a save vector: cells [n+1, sv[n]) *)
Definition aux_of (n : nat) (sv : list val) : list val :=
  match nth_error sv n with
  | Some (V sp) => firstn (sp - (n + 1)) (skipn (n + 1) sv)
  | _ => []
  end.

(* the save vectors of the pending branches, newest first, obtained by undoing log segments *)
Fixpoint vsnaps (sv : list val) (o : list (nat * val)) (n : nat) (st : list branch)
  : list (nat * nat * list val) :=
  match st with
  | [] => []
  | b :: r =>
      let sv' := undo (firstn n o) sv in
      (b_pc b, b_ix b, sv') :: vsnaps sv' (skipn n o) (b_ns b) r
  end.

Definition mk_alt (n : nat) (x : nat * nat * list val) : alt :=
  let '(pc, ix, sv) := x in
  {| a_pc := pc; a_ix := ix; a_slots := firstn n sv; a_aux := aux_of n sv |}.

Definition abs (s : state) : rstate :=
  {| r_slots := firstn (esp s) (saves s);
     r_aux := aux_of (esp s) (saves s);
     r_alts := map (mk_alt (esp s)) (vsnaps (saves s) (old s) (ns s) (stack s));
     r_max := max_stack s |}.
