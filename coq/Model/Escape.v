(* Escape.v — is_special / push_quoted / escape (lib.rs:1513-1543) and Expr::to_str
   (lib.rs:1595-1691) on byte strings.  All special characters are single ASCII bytes, so
   quoting byte-wise equals quoting char-wise. *)
From FR Require Export Ast Analyze.
From FR.Generated Require Consts.
From Coq Require Import Decimal.

Definition is_special (b : nat) : bool := existsb (Nat.eqb b) Consts.SPECIAL_CHARS.

Fixpoint push_quoted (s : list nat) : list nat :=
  match s with
  | [] => []
  | b :: r => if is_special b then 92 :: b :: push_quoted r else b :: push_quoted r
  end.

(* escape: (result, borrowed?) *)
Definition escape (s : list nat) : list nat * bool :=
  if existsb is_special s then (push_quoted s, false) else (s, true).

Fixpoint uint_bytes (u : Decimal.uint) : list nat :=
  match u with
  | Nil => []
  | D0 r => 48 :: uint_bytes r | D1 r => 49 :: uint_bytes r | D2 r => 50 :: uint_bytes r
  | D3 r => 51 :: uint_bytes r | D4 r => 52 :: uint_bytes r | D5 r => 53 :: uint_bytes r
  | D6 r => 54 :: uint_bytes r | D7 r => 55 :: uint_bytes r | D8 r => 56 :: uint_bytes r
  | D9 r => 57 :: uint_bytes r
  end.
Definition push_usize (n : N) : list nat := uint_bytes (N.to_uint n).

Definition bytes_of_ascii (s : list nat) := s.
Definition s_open := [40; 63; 58].          (* "(?:" *)
Definition s_casei := [40; 63; 105; 58].    (* "(?i:" *)

(* None = the panic arm "attempting to format hard expr" *)
Fixpoint to_str (e : expr) (prec : nat) : option (list nat) :=
  match e with
  | Empty => Some []
  | Any nl => Some (if nl then [40; 63; 115; 58; 46; 41] else [46])      (* "(?s:.)" / "." *)
  | Literal v casei =>
      Some (if casei then s_casei ++ push_quoted v ++ [41] else push_quoted v)
  | Assertion StartText => Some [94]
  | Assertion EndText => Some [36]
  | Assertion (StartLine false) => Some [40; 63; 109; 58; 94; 41]       (* "(?m:^)" *)
  | Assertion (EndLine false) => Some [40; 63; 109; 58; 36; 41]
  | Assertion (StartLine true) => Some [40; 63; 82; 109; 58; 94; 41]    (* "(?Rm:^)" *)
  | Assertion (EndLine true) => Some [40; 63; 82; 109; 58; 36; 41]
  | Concat es =>
      match (fix go (l : list expr) : option (list nat) :=
               match l with
               | [] => Some []
               | x :: r => match to_str x 2, go r with
                           | Some a, Some b => Some (a ++ b)
                           | _, _ => None
                           end
               end) es with
      | Some body => Some (if 1 <? prec then s_open ++ body ++ [41] else body)
      | None => None
      end
  | Alt es =>
      match (fix go (first : bool) (l : list expr) : option (list nat) :=
               match l with
               | [] => Some []
               | x :: r => match to_str x 1, go false r with
                           | Some a, Some b => Some ((if first then [] else [124]) ++ a ++ b)
                           | _, _ => None
                           end
               end) true es with
      | Some body => Some (if 0 <? prec then s_open ++ body ++ [41] else body)
      | None => None
      end
  | Group c =>
      match to_str c 0 with Some b => Some (40 :: b ++ [41]) | None => None end
  | Repeat c lo hi greedy =>
      match to_str c 3 with
      | None => None
      | Some b =>
          let q :=
            if N.eqb lo 0 && N.eqb hi 1 then [63]
            else if N.eqb lo 0 && N.eqb hi usize_max then [42]
            else if N.eqb lo 1 && N.eqb hi usize_max then [43]
            else 123 :: push_usize lo
                   ++ (if N.eqb lo hi then []
                       else 44 :: (if N.eqb hi usize_max then [] else push_usize hi))
                   ++ [125] in
          let body := b ++ q ++ (if greedy then [] else [63]) in
          Some (if 2 <? prec then s_open ++ body ++ [41] else body)
      end
  | Delegate inner _ casei _ =>
      Some (if casei then s_casei ++ inner ++ [41] else inner)
  | _ => None
  end.

(* the pattern string of a DelegateBuilder: every pushed expression at precedence 1 *)
Fixpoint delegate_pattern (es : list expr) : option (list nat) :=
  match es with
  | [] => Some []
  | x :: r => match to_str x 1, delegate_pattern r with
              | Some a, Some b => Some (a ++ b)
              | _, _ => None
              end
  end.
