(* Parse.v — line-by-line port of parse.rs (Parser::parse and everything under it) on the
   UTF-8 bytes of the pattern.  Every slice / index / unwrap of the source is an explicit
   [PPanic] outcome when out of range; recursion and loops run on fuel ([PFuel] when exhausted).
   Character classes and \p{..} are handed to regex-syntax by the real parser's consumers; what
   such a class matches is oracle data, so Delegate nodes carry [DClass []] here (the tree
   comparison ignores that field). *)
From FR Require Export Ast Analyze.
From FR.Generated Require Consts.
From Coq Require Import String.
Import List.

Inductive perr :=
| PGeneral | PUnclosedOpenParen | PInvalidRepeat | PRecursionExceeded | PTrailingBackslash
| PInvalidEscape | PUnclosedUnicodeName | PInvalidHex | PInvalidCodepointValue | PInvalidClass
| PUnknownFlag | PNonUnicodeUnsupported | PInvalidBackref | PTargetNotRepeatable
| PInvalidGroupName | PInvalidGroupNameBackref.

Inductive pres (A : Type) :=
| POk (a : A)
| PErr (pos : nat) (e : perr)
| PNamedBackrefOnly                  (* Error::CompileError(NamedBackrefOnly) *)
| PPanic
| PFuel.
Arguments POk {A}. Arguments PErr {A}. Arguments PNamedBackrefOnly {A}. Arguments PPanic {A}. Arguments PFuel {A}.

Definition pbind {A B} (r : pres A) (f : A -> pres B) : pres B :=
  match r with
  | POk a => f a
  | PErr p e => PErr p e
  | PNamedBackrefOnly => PNamedBackrefOnly
  | PPanic => PPanic
  | PFuel => PFuel
  end.
Notation "'let!' x ':=' r 'in' k" := (pbind r (fun x => k)) (at level 200, x pattern, r at level 100, k at level 200).

Record pflags := { f_casei : bool; f_multi : bool; f_dotnl : bool; f_swap : bool; f_space : bool; f_unicode : bool }.
Definition flags0 : pflags :=
  {| f_casei := false; f_multi := false; f_dotnl := false; f_swap := false; f_space := false; f_unicode := true |}.

Open Scope string_scope.
Example initial_flags_known : Consts.INITIAL_FLAGS = ["UNICODE"]. Proof. reflexivity. Qed.
Example backref_guard_known : Consts.BACKREF_GUARD = "self.re.len() / 2". Proof. reflexivity. Qed.
Example escape_table_known :
  Consts.ESCAPE_TABLE = [(97, 7); (98, 8); (102, 12); (110, 10); (114, 13); (116, 9); (118, 11); (101, 27); (32, 32)].
Proof. reflexivity. Qed.
Close Scope string_scope.
Import List.

Record pst := {
  p_flags : pflags;
  p_backrefs : list N;
  p_named : list (list nat * nat);       (* insertion order; lookup takes the latest binding *)
  p_numeric : bool;
  p_group : nat
}.
Definition pst0 : pst :=
  {| p_flags := flags0; p_backrefs := []; p_named := []; p_numeric := false; p_group := 0 |}.

Definition set_flags (s : pst) (f : pflags) : pst :=
  {| p_flags := f; p_backrefs := p_backrefs s; p_named := p_named s; p_numeric := p_numeric s; p_group := p_group s |}.
Definition add_backref (s : pst) (g : N) (numeric : bool) : pst :=
  {| p_flags := p_flags s; p_backrefs := g :: p_backrefs s; p_named := p_named s;
     p_numeric := p_numeric s || numeric; p_group := p_group s |}.
Definition bump_group (s : pst) : pst :=
  {| p_flags := p_flags s; p_backrefs := p_backrefs s; p_named := p_named s; p_numeric := p_numeric s; p_group := S (p_group s) |}.
Definition add_name (s : pst) (name : list nat) : pst :=
  {| p_flags := p_flags s; p_backrefs := p_backrefs s; p_named := (name, p_group s) :: p_named s;
     p_numeric := p_numeric s; p_group := p_group s |}.

Fixpoint bytes_eq (a b : list nat) : bool :=
  match a, b with [], [] => true | x :: r, y :: s => (x =? y) && bytes_eq r s | _, _ => false end.
Definition lookup_name (names : list (list nat * nat)) (id : list nat) : option nat :=
  match find (fun p => bytes_eq (fst p) id) names with Some p => Some (snd p) | None => None end.

Definition is_digit (b : nat) : bool := (48 <=? b) && (b <=? 57).
Definition lower (b : nat) : nat := if (65 <=? b) && (b <=? 90) then b + 32 else b.   (* b | 32 on letters *)
Definition or32 (b : nat) : nat := if Nat.testbit b 5 then b else b + 32.
Definition is_hex_digit (b : nat) : bool := is_digit b || ((97 <=? or32 b) && (or32 b <=? 102)).
Definition is_ascii_alpha (b : nat) : bool := ((65 <=? b) && (b <=? 90)) || ((97 <=? b) && (b <=? 122)).

(* identifier characters: alphanumeric (oracle table on the harness alphabet) or '_' *)
Definition is_id_cp (cp : nat) : bool :=
  ((48 <=? cp) && (cp <=? 57)) || ((65 <=? cp) && (cp <=? 90)) || ((97 <=? cp) && (cp <=? 122))
  || (cp =? 95) || (cp =? 233) || (cp =? 201) || (cp =? 1078) || (cp =? 1046).

Fixpoint starts_with (s pre : list nat) : bool :=
  match pre, s with
  | [], _ => true
  | p :: pr, x :: sr => (x =? p) && starts_with sr pr
  | _ :: _, [] => false
  end.

Fixpoint dec_value (ds : list nat) (acc : N) : N :=
  match ds with [] => acc | b :: r => dec_value r (acc * 10 + N.of_nat (b - 48))%N end.
Fixpoint digit_run (s : list nat) : nat :=
  match s with b :: r => if is_digit b then S (digit_run r) else 0 | [] => 0 end.

(* UTF-8 encoding of a scalar value (String::push); code points are binary numbers *)
Definition encode_utf8 (cp : N) : list nat :=
  let b (x : N) := N.to_nat x in
  if N.ltb cp 128 then [b cp]
  else if N.ltb cp 2048 then [b (192 + cp / 64); b (128 + cp mod 64)]%N
  else if N.ltb cp 65536 then [b (224 + cp / 4096); b (128 + (cp / 64) mod 64); b (128 + cp mod 64)]%N
  else [b (240 + cp / 262144); b (128 + (cp / 4096) mod 64); b (128 + (cp / 64) mod 64); b (128 + cp mod 64)]%N.

Definition hex_val (b : nat) : nat :=
  if is_digit b then b - 48 else or32 b - 87.
Fixpoint hex_value (ds : list nat) (acc : N) : N :=
  match ds with [] => acc | b :: r => hex_value r (acc * 16 + N.of_nat (hex_val b))%N end.

(* regex_syntax::escape_into: meta characters get a backslash (dependency behaviour) *)
Definition rs_is_meta (b : nat) : bool :=
  existsb (Nat.eqb b) [92; 46; 43; 42; 63; 40; 41; 124; 91; 93; 123; 125; 94; 36; 35; 38; 45; 126].
Fixpoint rs_escape (s : list nat) : list nat :=
  match s with [] => [] | b :: r => if rs_is_meta b then 92 :: b :: rs_escape r else b :: rs_escape r end.

Definition make_literal (v : list nat) : expr := Literal v false.

Section Parser.
Variable re : list nat.
Let len := length re.

Definition byte (ix : nat) : option nat := nth_error re ix.
Definition byte_is (ix b : nat) : bool := match byte ix with Some x => x =? b | None => false end.
Definition sub (a b : nat) : list nat := firstn (b - a) (skipn a re).
Definition from (a : nat) : list nat := skipn a re.

(* parse_decimal(s, ix) *)
Definition parse_decimal (ix : nat) : option (nat * N) :=
  let n := digit_run (from ix) in
  if n =? 0 then None else
  let v := dec_value (sub ix (ix + n)) 0 in
  if N.leb v usize_max then Some (ix + n, v) else None.

(* optional_whitespace; the inner loop skips a (?#...) comment *)
Fixpoint skip_comment (fuel ix : nat) : pres nat :=
  match fuel with
  | 0 => PFuel
  | S f =>
      if len <=? ix then PErr len PUnclosedOpenParen else
      match byte ix with
      | Some 41 => POk (ix + 1)
      | Some 92 => skip_comment f (ix + 2)
      | _ => skip_comment f (ix + 1)
      end
  end.

Fixpoint find_nl (l : list nat) : option nat :=
  match l with [] => None | b :: r => if b =? 10 then Some 0 else option_map S (find_nl r) end.

Fixpoint optional_whitespace (fuel : nat) (fl : pflags) (ix : nat) : pres nat :=
  match fuel with
  | 0 => PFuel
  | S f =>
      if ix =? len then POk ix else
      match byte ix with
      | None => PPanic
      | Some b =>
          if (b =? 35) && f_space fl then
            match find_nl (from ix) with
            | Some x => optional_whitespace f fl (ix + x + 1)
            | None => POk len
            end
          else if ((b =? 32) || (b =? 13) || (b =? 10) || (b =? 9)) && f_space fl then
            optional_whitespace f fl (ix + 1)
          else if (b =? 40) && starts_with (from ix) [40; 63; 35] then
            let! j := skip_comment f (ix + 3) in optional_whitespace f fl j
          else POk ix
      end
  end.

(* parse_id(s, open, close, allow_relative) on s = re[ix..]; returns (id, skip) *)
Fixpoint id_run (fuel : nat) (s : list nat) (i : nat) (digits_only : bool) : nat :=
  match fuel with
  | 0 => i
  | S f => match decode_at s i with
           | Some (cp, l) =>
               if (if digits_only then (48 <=? cp) && (cp <=? 57) else is_id_cp cp)
               then id_run f s (i + l) digits_only else i
           | None => i
           end
  end.

Definition parse_id (s open close : list nat) (allow_relative : bool) : option (list nat * nat) :=
  if starts_with s open then
    let id_start := length open in
    let body := skipn id_start s in
    let rel := allow_relative && (match body with 45 :: _ => true | _ => false end) in
    let n := if rel then id_run (length body) body 1 true else id_run (length body) body 0 false in
    let id_len :=
      if n <? length body then (if starts_with (skipn n body) close then Some n else None)
      else (match close with [] => Some (length s) | _ => None end) in
    match id_len with
    | Some 0 => None
    | Some l =>
        let id_end := id_start + l in
        if id_end <=? length s then Some (firstn l body, id_end + length close) else None
    | None => None
    end
  else None.

(* id.parse::<isize>() then conversion to a group number *)
Definition isize_max : N := 9223372036854775807%N.
Definition parse_group_ref (st : pst) (id : list nat) : option N :=
  match lookup_name (p_named st) id with
  | Some g => Some (N.of_nat g)
  | None =>
      match id with
      | 45 :: ds =>                       (* "-digits": relative *)
          if forallb is_digit ds && negb (length ds =? 0) then
            let v := dec_value ds 0 in     (* the value is -v *)
            if N.leb v (isize_max + 1) then
              (* curr_group.checked_add_signed(-v + 1) *)
              let cg := N.of_nat (p_group st) in
              if N.leb v (cg + 1) then Some (cg + 1 - v)%N else None
            else None
          else None
      | 43 :: ds =>
          if forallb is_digit ds && negb (length ds =? 0) then
            let v := dec_value ds 0 in if N.leb v isize_max then Some v else None
          else None
      | _ =>
          if forallb is_digit id && negb (length id =? 0) then
            let v := dec_value id 0 in if N.leb v isize_max then Some v else None
          else None
      end
  end.

Definition parse_named_backref (st : pst) (ix : nat) (open close : list nat) (allow_relative : bool)
           (mk : N -> expr) : pres (nat * expr * pst) :=
  if len <? ix then PPanic else
  match parse_id (from ix) open close allow_relative with
  | Some (id, skip) =>
      match parse_group_ref st id with
      | Some g =>
          if N.ltb g (N.of_nat len)
          then POk (ix + skip, mk g, add_backref st g false)
          else PErr ix PInvalidGroupNameBackref
      | None => PErr ix PInvalidGroupNameBackref
      end
  | None => PErr ix PInvalidGroupName
  end.

Definition parse_numbered_backref (st : pst) (ix : nat) (mk : N -> expr) : pres (nat * expr * pst) :=
  match parse_decimal ix with
  | Some (e, g) =>
      if N.ltb g (N.of_nat (len / 2)) then POk (e, mk g, add_backref st g true)
      else PErr ix PInvalidBackref
  | None => PErr ix PInvalidBackref
  end.

(* parse_hex: ix points after \x, \u or \U *)
Fixpoint hex_braced (fuel starthex endhex : nat) (errpos : nat) : pres nat :=
  match fuel with
  | 0 => PFuel
  | S f =>
      if endhex =? len then PErr errpos PInvalidHex else
      match byte endhex with
      | None => PPanic
      | Some b =>
          if (starthex <? endhex) && (b =? 125) then POk endhex
          else if is_hex_digit b && (endhex <? starthex + 8) then hex_braced f starthex (endhex + 1) errpos
          else PErr errpos PInvalidHex
      end
  end.

Definition parse_hex (fl : pflags) (ix digits : nat) : pres (nat * expr) :=
  if len <=? ix then PErr ix PInvalidHex else
  let fin (e : nat) (ds : list nat) : pres (nat * expr) :=
    let cp := hex_value ds 0%N in
    if (N.leb 55296 cp && N.leb cp 57343) || N.ltb 1114111 cp
    then PErr ix PInvalidCodepointValue
    else POk (e, Literal (encode_utf8 cp) (f_casei fl)) in
  if (ix + digits <=? len) && forallb is_hex_digit (sub ix (ix + digits)) then
    fin (ix + digits) (sub ix (ix + digits))
  else if byte_is ix 123 then
    let! endhex := hex_braced (len + 2) (ix + 1) (ix + 1) ix in
    fin (endhex + 1) (sub (ix + 1) endhex)
  else PErr ix PInvalidHex.

(* \p{...} / \P{...}: find the closing brace *)
Fixpoint uniname_end (fuel e errpos : nat) : pres nat :=
  match fuel with
  | 0 => PFuel
  | S f =>
      if e =? len then PErr errpos PUnclosedUnicodeName else
      match byte e with
      | None => PPanic
      | Some b => if b =? 125 then POk (e + 1) else uniname_end f (e + cp_len b) errpos
      end
  end.

Definition class_delegate (inner : list nat) (casei : bool) : expr :=
  Delegate inner 1 casei (DClass []).

(* parse_escape: ix points to the backslash *)
Definition parse_escape (st : pst) (ix : nat) (in_class : bool) : pres (nat * expr * pst) :=
  match byte (ix + 1) with
  | None => PErr ix PTrailingBackslash
  | Some b =>
      let fl := p_flags st in
      let e := ix + 1 + cp_len b in
      let ret (x : expr) := POk (e, x, st) in
      let noc := negb in_class in
      if is_digit b then parse_numbered_backref st (ix + 1) Backref
      else if (b =? 107) && noc then
        if byte_is e 39 then parse_named_backref st e [39] [39] true Backref
        else parse_named_backref st e [60] [62] true Backref
      else if (b =? 65) && noc then ret (Assertion StartText)
      else if (b =? 122) && noc then ret (Assertion EndText)
      else if (b =? 90) && noc then
        ret (LookAround (Delegate [10; 42; 36] 0 false DNlStarEnd) LookAhead)
      else if (b =? 98) && noc then
        if byte_is e 123 then PErr ix PInvalidEscape else ret (Assertion WordBoundary)
      else if (b =? 66) && noc then
        if byte_is e 123 then PErr ix PInvalidEscape else ret (Assertion NotWordBoundary)
      else if (b =? 60) && noc then ret (Assertion LeftWordBoundary)
      else if (b =? 62) && noc then ret (Assertion RightWordBoundary)
      else if (or32 b =? 100) || (or32 b =? 115) || (or32 b =? 119) then
        if len <? e then PPanic else ret (class_delegate (sub ix e) (f_casei fl))
      else if or32 b =? 104 then
        ret (Delegate (if b =? 104 then [91; 48; 45; 57; 65; 45; 70; 97; 45; 102; 93]
                       else [91; 94; 48; 45; 57; 65; 45; 70; 97; 45; 102; 93]) 1 false (DClass []))
      else if b =? 120 then let! r := parse_hex fl e 2 in POk (fst r, snd r, st)
      else if b =? 117 then let! r := parse_hex fl e 4 in POk (fst r, snd r, st)
      else if b =? 85 then let! r := parse_hex fl e 8 in POk (fst r, snd r, st)
      else if (or32 b =? 112) && negb (e =? len) then
        match byte e with
        | None => PPanic
        | Some b2 =>
            let e2 := e + cp_len b2 in
            let! e3 := (if b2 =? 123 then uniname_end (len + 2) e2 ix else POk e2) in
            if len <? e3 then PPanic else POk (e3, class_delegate (sub ix e3) (f_casei fl), st)
        end
      else if (b =? 75) && noc then ret KeepOut
      else if (b =? 71) && noc then ret ContinueFromPreviousMatchEnd
      else if (b =? 103) && noc then
        if e =? len then PErr ix PInvalidEscape else
        match byte e with
        | None => PPanic
        | Some b2 =>
            if is_digit b2 then parse_numbered_backref st e SubroutineCall
            else if b2 =? 39 then parse_named_backref st e [39] [39] true SubroutineCall
            else parse_named_backref st e [60] [62] true SubroutineCall
        end
      else
        match find (fun p => fst p =? b) Consts.ESCAPE_TABLE with
        | Some p => ret (make_literal [snd p])
        | None =>
            if is_ascii_alpha b && negb (existsb (Nat.eqb b) [107; 65; 122; 98; 66; 60; 62; 75; 71])
            then PErr ix PInvalidEscape
            else if len <? e then PPanic else ret (make_literal (sub (ix + 1) e))
        end
  end.

(* parse_class: ix points to '[' *)
Fixpoint class_loop (fuel : nat) (st : pst) (ix nest : nat) (cls : list nat) : pres (nat * list nat * pst) :=
  match fuel with
  | 0 => PFuel
  | S f =>
      if ix =? len then PErr ix PInvalidClass else
      match byte ix with
      | None => PPanic
      | Some b =>
          if b =? 92 then
            let! r := parse_escape st ix true in
            let '(e, x, st') := r in
            match x with
            | Literal v _ => class_loop f st' e nest (cls ++ rs_escape v)
            | Delegate inner _ _ _ => class_loop f st' e nest (cls ++ inner)
            | _ => PErr ix PInvalidClass
            end
          else if b =? 91 then class_loop f st (ix + 1) (S nest) (cls ++ [91])
          else if b =? 93 then
            match nest with
            | 0 => PPanic
            | 1 => POk (ix, cls ++ [93], st)
            | S n => class_loop f st (ix + 1) n (cls ++ [93])
            end
          else
            let e := ix + cp_len b in
            if len <? e then PPanic else class_loop f st e nest (cls ++ sub ix e)
      end
  end.

Definition parse_class (st : pst) (ix : nat) : pres (nat * expr * pst) :=
  let ix1 := ix + 1 in
  let '(cls1, ix2) := if byte_is ix1 94 then ([91; 94], ix1 + 1) else ([91], ix1) in
  let '(cls2, ix3) := if byte_is ix2 93 then (cls1 ++ [93], ix2 + 1) else (cls1, ix2) in
  let! r := class_loop (len + 2) st ix3 1 cls2 in
  let '(e, cls, st') := r in
  POk (e + 1, class_delegate cls (f_casei (p_flags st)), st').

Definition is_repeatable (x : expr) : bool :=
  match x with LookAround _ _ | Empty | Assertion _ => false | _ => true end.

(* parse_repeat(ix): ix points to '{'; returns (next, lo, hi) *)
Definition parse_repeat (fl : pflags) (ix : nat) : pres (nat * N * N) :=
  let ws := optional_whitespace (len + 2) fl in
  let! ix1 := ws (ix + 1) in
  if ix1 =? len then PErr ix1 PInvalidRepeat else
  let! lo_end := (if byte_is ix1 44 then POk (0%N, ix1)
                  else match parse_decimal ix1 with
                       | Some (nx, lo) => POk (lo, nx)
                       | None => PErr ix1 PInvalidRepeat
                       end) in
  let '(lo, e1) := lo_end in
  let! ix2 := ws e1 in
  if ix2 =? len then PErr ix2 PInvalidRepeat else
  let! hi_end :=
    (if byte_is ix2 125 then POk (lo, ix2)
     else if byte_is ix2 44 then
       let! e2 := ws (ix2 + 1) in
       match parse_decimal e2 with
       | Some (nx, hi) => POk (hi, nx)
       | None => POk (usize_max, e2)
       end
     else PErr ix2 PInvalidRepeat) in
  let '(hi, e3) := hi_end in
  let! ix3 := ws e3 in
  if (ix3 =? len) || negb (byte_is ix3 125) then PErr ix3 PInvalidRepeat
  else POk (ix3 + 1, lo, hi).

Definition check_for_close_paren (fl : pflags) (ix : nat) : pres nat :=
  let! ix1 := optional_whitespace (len + 2) fl ix in
  if ix1 =? len then PErr ix1 PUnclosedOpenParen
  else if negb (byte_is ix1 41) then PErr ix1 PGeneral
  else POk (ix1 + 1).

Definition update_flag (fl : pflags) (which : nat) (neg : bool) : pflags :=
  let v := negb neg in
  match which with
  | 105 => {| f_casei := v; f_multi := f_multi fl; f_dotnl := f_dotnl fl; f_swap := f_swap fl; f_space := f_space fl; f_unicode := f_unicode fl |}
  | 109 => {| f_casei := f_casei fl; f_multi := v; f_dotnl := f_dotnl fl; f_swap := f_swap fl; f_space := f_space fl; f_unicode := f_unicode fl |}
  | 115 => {| f_casei := f_casei fl; f_multi := f_multi fl; f_dotnl := v; f_swap := f_swap fl; f_space := f_space fl; f_unicode := f_unicode fl |}
  | 85 => {| f_casei := f_casei fl; f_multi := f_multi fl; f_dotnl := f_dotnl fl; f_swap := v; f_space := f_space fl; f_unicode := f_unicode fl |}
  | _ => {| f_casei := f_casei fl; f_multi := f_multi fl; f_dotnl := f_dotnl fl; f_swap := f_swap fl; f_space := v; f_unicode := f_unicode fl |}
  end.

Definition P3 := (nat * expr * pst)%type.

(* the mutually recursive core: parse_re / parse_branch / parse_piece / parse_atom /
   parse_group / parse_flags / parse_conditional; one unit of fuel per call *)
Fixpoint parse_re (fuel : nat) (st : pst) (ix depth : nat) {struct fuel} : pres P3 :=
  match fuel with
  | 0 => PFuel
  | S f =>
      let! r := parse_branch f st ix depth [] in
      let '(ix1, child, st1) := r in
      let! ix2 := optional_whitespace (len + 2) (p_flags st1) ix1 in
      if byte_is ix2 124 then alt_loop f st1 ix2 depth [child]
      else if p_numeric st1 && negb (match p_named st1 with [] => true | _ => false end)
      then PNamedBackrefOnly
      else POk (ix2, child, st1)
  end
with alt_loop (fuel : nat) (st : pst) (ix depth : nat) (children : list expr) {struct fuel} : pres P3 :=
  match fuel with
  | 0 => PFuel
  | S f =>
      if byte_is ix 124 then
        let! r := parse_branch f st (ix + 1) depth [] in
        let '(nx, child, st1) := r in
        let! ix2 := optional_whitespace (len + 2) (p_flags st1) nx in
        alt_loop f st1 ix2 depth (children ++ [child])
      else POk (ix, Alt children, st)
  end
with parse_branch (fuel : nat) (st : pst) (ix depth : nat) (children : list expr) {struct fuel} : pres P3 :=
  match fuel with
  | 0 => PFuel
  | S f =>
      let finish (ix : nat) (st : pst) : pres P3 :=
        match children with
        | [] => POk (ix, Empty, st)
        | [c] => POk (ix, c, st)
        | _ => POk (ix, Concat children, st)
        end in
      if ix <? len then
        let! r := parse_piece f st ix depth in
        let '(nx, child, st1) := r in
        if nx =? ix then finish ix st1
        else parse_branch f st1 nx depth (match child with Empty => children | _ => children ++ [child] end)
      else finish ix st
  end
with parse_piece (fuel : nat) (st : pst) (ix depth : nat) {struct fuel} : pres P3 :=
  match fuel with
  | 0 => PFuel
  | S f =>
      let! r := parse_atom f st ix depth in
      let '(ix0, child, st1) := r in
      let fl := p_flags st1 in
      let! ix1 := optional_whitespace (len + 2) fl ix0 in
      if ix1 <? len then
        match byte ix1 with
        | None => PPanic
        | Some b =>
            let quant (ixq : nat) (lo hi : N) : pres P3 :=
              if negb (is_repeatable child) then PErr ixq PTargetNotRepeatable else
              let! ix2 := optional_whitespace (len + 2) fl (ixq + 1) in
              let '(greedy0, ix3) := if (ix2 <? len) && byte_is ix2 63 then (false, ix2 + 1) else (true, ix2) in
              let greedy := xorb greedy0 (f_swap fl) in
              let node := Repeat child lo hi greedy in
              if (ix3 <? len) && byte_is ix3 43 then POk (ix3 + 1, AtomicGroup node, st1)
              else POk (ix3, node, st1) in
            if b =? 63 then quant ix1 0%N 1%N
            else if b =? 42 then quant ix1 0%N usize_max
            else if b =? 43 then quant ix1 1%N usize_max
            else if b =? 123 then
              match parse_repeat fl ix1 with
              | POk (nx, lo, hi) => quant (nx - 1) lo hi
              | PPanic => PPanic
              | PFuel => PFuel
              | _ => POk (ix1, child, st1)       (* invalid repeat syntax: '{' is a literal *)
              end
            else POk (ix1, child, st1)
        end
      else POk (ix1, child, st1)
  end
with parse_atom (fuel : nat) (st : pst) (ix depth : nat) {struct fuel} : pres P3 :=
  match fuel with
  | 0 => PFuel
  | S f =>
      let fl := p_flags st in
      let! ix1 := optional_whitespace (len + 2) fl ix in
      if ix1 =? len then POk (ix1, Empty, st) else
      match byte ix1 with
      | None => PPanic
      | Some b =>
          if b =? 46 then POk (ix1 + 1, Any (f_dotnl fl), st)
          else if b =? 94 then
            POk (ix1 + 1, Assertion (if f_multi fl then StartLine false else StartText), st)
          else if b =? 36 then
            POk (ix1 + 1, Assertion (if f_multi fl then EndLine false else EndText), st)
          else if b =? 40 then parse_group f st ix1 depth
          else if b =? 92 then parse_escape st ix1 false
          else if (b =? 43) || (b =? 42) || (b =? 63) || (b =? 124) || (b =? 41) then POk (ix1, Empty, st)
          else if b =? 91 then parse_class st ix1
          else
            let nx := ix1 + cp_len b in
            if len <? nx then PPanic else POk (nx, Literal (sub ix1 nx) (f_casei fl), st)
      end
  end
with parse_group (fuel : nat) (st : pst) (ix depth : nat) {struct fuel} : pres P3 :=
  match fuel with
  | 0 => PFuel
  | S f =>
      let depth := depth + 1 in
      if Consts.MAX_RECURSION <=? depth then PErr ix PRecursionExceeded else
      let fl := p_flags st in
      let! ix1 := optional_whitespace (len + 2) fl (ix + 1) in
      let s := from ix1 in
      let body (la : option lookkind) (skip : nat) (st : pst) : pres P3 :=
        let! r := parse_re f st (ix1 + skip) depth in
        let '(ix2, child, st1) := r in
        let! ix3 := check_for_close_paren (p_flags st1) ix2 in
        POk (ix3, match la with
                  | Some k => LookAround child k
                  | None => if skip =? 2 then AtomicGroup child else Group child
                  end, st1) in
      if starts_with s [63; 61] then body (Some LookAhead) 2 st
      else if starts_with s [63; 33] then body (Some LookAheadNeg) 2 st
      else if starts_with s [63; 60; 61] then body (Some LookBehind) 3 st
      else if starts_with s [63; 60; 33] then body (Some LookBehindNeg) 3 st
      else if starts_with s [63; 60] then
        let st1 := bump_group st in
        match parse_id (from (ix1 + 1)) [60] [62] false with
        | Some (id, skip) => body None (skip + 1) (add_name st1 id)
        | None => PErr ix1 PInvalidGroupName
        end
      else if starts_with s [63; 80; 60] then
        let st1 := bump_group st in
        match parse_id (from (ix1 + 2)) [60] [62] false with
        | Some (id, skip) => body None (skip + 2) (add_name st1 id)
        | None => PErr ix1 PInvalidGroupName
        end
      else if starts_with s [63; 80; 61] then parse_named_backref st (ix1 + 3) [] [41] false Backref
      else if starts_with s [63; 62] then body None 2 st
      else if starts_with s [63; 40] then parse_conditional f st (ix1 + 2) depth
      else if starts_with s [63; 80; 62] then parse_named_backref st (ix1 + 3) [] [41] false SubroutineCall
      else if starts_with s [63] then parse_flags f st ix1 depth (ix1 + 1) (ix1 + 1) false (p_flags st)
      else body None 0 (bump_group st)
  end
with parse_flags (fuel : nat) (st : pst) (ixq depth start ix : nat) (neg : bool) (oldflags : pflags)
     {struct fuel} : pres P3 :=
  match fuel with
  | 0 => PFuel
  | S f =>
      let fl := p_flags st in
      let! ix1 := optional_whitespace (len + 2) fl ix in
      if ix1 =? len then PErr ix1 PUnclosedOpenParen else
      match byte ix1 with
      | None => PPanic
      | Some b =>
          let unknown : pres P3 :=
            if len <? ix1 + cp_len b then PPanic else PErr start PUnknownFlag in
          if (b =? 105) || (b =? 109) || (b =? 115) || (b =? 85) || (b =? 120) then
            parse_flags f (set_flags st (update_flag fl b neg)) ixq depth start (ix1 + 1) neg oldflags
          else if b =? 117 then
            if neg then PErr ix1 PNonUnicodeUnsupported
            else parse_flags f st ixq depth start (ix1 + 1) neg oldflags
          else if b =? 45 then
            if neg then unknown else parse_flags f st ixq depth start (ix1 + 1) true oldflags
          else if b =? 41 then
            if (ix1 =? start) || (neg && (ix1 =? start + 1)) then unknown
            else POk (ix1 + 1, Empty, st)
          else if b =? 58 then
            if neg && (ix1 =? start + 1) then unknown else
            let! r := parse_re f st (ix1 + 1) depth in
            let '(ix2, child, st1) := r in
            if ix2 =? len then PErr ix2 PUnclosedOpenParen
            else if negb (byte_is ix2 41) then PErr ix2 PGeneral
            else POk (ix2 + 1, child, set_flags st1 oldflags)
          else unknown
      end
  end
with parse_conditional (fuel : nat) (st : pst) (ix depth : nat) {struct fuel} : pres P3 :=
  match fuel with
  | 0 => PFuel
  | S f =>
      if len <=? ix then PErr ix PUnclosedOpenParen else
      match byte ix with
      | None => PPanic
      | Some b =>
          let! r := (if is_digit b then parse_numbered_backref st ix Backref
                     else if b =? 39 then parse_named_backref st ix [39] [39] true Backref
                     else if b =? 60 then parse_named_backref st ix [60] [62] true Backref
                     else parse_re f st ix depth) in
          let '(nx0, condition, st1) := r in
          let! nx := check_for_close_paren (p_flags st1) nx0 in
          let! r2 := parse_re f st1 nx depth in
          let '(e, child, st2) := r2 in
          if e =? nx then
            match condition with
            | Backref g =>
                let! after := check_for_close_paren (p_flags st2) e in
                POk (after, BackrefExistsCondition g, st2)
            | _ => PErr e PGeneral
            end
          else
            let '(if_true, if_false) :=
              match child with
              | Alt (a :: [b2]) => (a, b2)
              | Alt (a :: rest) => (a, Alt rest)
              | Alt [] => (Alt [], Empty)          (* unreachable: remove(0) would panic *)
              | _ => (child, Empty)
              end in
            let inner := match condition with Backref g => BackrefExistsCondition g | _ => condition end in
            let! after := check_for_close_paren (p_flags st2) e in
            POk (after,
                 match if_true, if_false with
                 | Empty, Empty => inner
                 | _, _ => Conditional inner if_true if_false
                 end, st2)
      end
  end.

(* Parser::parse *)
Definition parse_fuel : nat := 12 * (len + 80).

Definition parse : pres (expr * pst) :=
  let! r := parse_re parse_fuel pst0 0 0 in
  let '(ix, e, st) := r in
  if ix <? len then PErr ix PGeneral else POk (e, st).

End Parser.
