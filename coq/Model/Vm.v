(* Vm.v — port of the instruction set and of vm::run (vm.rs:105-200, 434-730): the interpreter
   loop over the backtracking State of State.v, with explicit outcomes for every panic site,
   the backtrack limit, the stack bound, and the statistics the run-stats hook reports.
   A Delegate instruction carries the easy sub-expressions it was built from and executes as
   an anchored search of the reference semantics (the regex-automata oracle, DESIGN 4.3). *)
From FR Require Export State Ast Analyze Sem.
From FR.Generated Require Consts.
From Coq Require Import String.

Inductive insn :=
| IEnd | IAny | IAnyNoNL
| IAssertion (a : assertion)
| ILit (v : list nat)
| ISplit (x y : nat)
| IJmp (target : nat)
| ISave (slot : nat) | ISave0 (slot : nat) | IRestore (slot : nat)
| IRepeatGr (lo hi : N) (next rep : nat)
| IRepeatNg (lo hi : N) (next rep : nat)
| IRepeatEpsilonGr (lo : N) (next rep chk : nat)
| IRepeatEpsilonNg (lo : N) (next rep chk : nat)
| IFailNegativeLookAround
| IGoBack (count : N)
| IBackref (slot : nat)
| IBeginAtomic | IEndAtomic
| IDelegate (es : list expr) (start_group end_group : nat)
| IContinueFromPreviousMatchEnd
| IBackrefExistsCondition (g : N).

Open Scope string_scope.
Example insn_variants_known :
  Consts.INSN_VARIANTS =
  ["End"; "Any"; "AnyNoNL"; "Assertion"; "Lit"; "Split"; "Jmp"; "Save"; "Save0"; "Restore";
   "RepeatGr"; "RepeatNg"; "RepeatEpsilonGr"; "RepeatEpsilonNg"; "FailNegativeLookAround";
   "GoBack"; "Backref"; "BeginAtomic"; "EndAtomic"; "Delegate"; "ContinueFromPreviousMatchEnd";
   "BackrefExistsCondition"].
Proof. reflexivity. Qed.
(* the two tests of the run loop the model hard-codes *)
Example cont_test_known : Consts.CONT_TEST = "ix != pos". Proof. reflexivity. Qed.
Example limit_test_known : Consts.LIMIT_TEST = ">". Proof. reflexivity. Qed.
Close Scope string_scope.
Import List.

Record prog := { p_body : list insn; p_nsaves : nat }.

Inductive outcome :=
| RMatch (saves : list val)
| RNoMatch
| RErrStack          (* RuntimeError::StackOverflow *)
| RErrLimit          (* RuntimeError::BacktrackLimitExceeded *)
| RPanic
| ROutOfFuel.

Record stats := { n_insn : N; n_back : N; peak : nat }.

(* The interpreter is written once, over an interface to the backtracking state; it is
   instantiated with the copy-on-write State of State.v (the code as written, [iface0]) and, in
   the proofs, with the whole-state-copy reference machine. *)
Record iface (S : Type) := {
  i_push : S -> nat -> nat -> option S;          (* None = StackOverflow *)
  i_pop : S -> option (S * nat * nat);           (* None = panic *)
  i_save : S -> nat -> val -> option S;          (* None = panic *)
  i_get : S -> nat -> option val;
  i_spush : S -> val -> option S;
  i_spop : S -> option (S * val);
  i_count : S -> nat;
  i_cut : S -> nat -> option S;
  i_result : S -> list val
}.
Arguments i_push {S}. Arguments i_pop {S}. Arguments i_save {S}. Arguments i_get {S}.
Arguments i_spush {S}. Arguments i_spop {S}. Arguments i_count {S}. Arguments i_cut {S}.
Arguments i_result {S}.

Definition iface0 : iface state :=
  {| i_push := st_push; i_pop := st_pop; i_save := st_save; i_get := st_get;
     i_spush := st_stack_push; i_spop := st_stack_pop; i_count := st_count; i_cut := st_cut;
     i_result := saves |}.

(* result of one instruction *)
Inductive gires (S : Type) :=
| INext (pc ix : nat) (s : S)
| IFailed (s : S)                 (* break 'fail *)
| IDone (saves : list val)
| IStackOverflow
| IPanicked.
Arguments INext {S}. Arguments IFailed {S}. Arguments IDone {S}. Arguments IStackOverflow {S}. Arguments IPanicked {S}.

Section Run.
Variable cx : ctx.                    (* text, pos, skipped-empty-match flag *)
Let t := c_text cx.

(* GoBack: count steps of prev_codepoint_ix, failing at 0; fuel = ix suffices *)
Inductive gb := GBOk (ix : nat) | GBFail | GBPanic.
Fixpoint goback (fuel : nat) (cnt : N) (ix : nat) : gb :=
  if N.eqb cnt 0 then GBOk ix else
  match fuel with
  | 0 => GBFail                        (* ix = 0 reached with cnt > 0 *)
  | S f =>
      if ix =? 0 then GBFail else
      match prev_cp t ix with
      | Some j => goback f (N.pred cnt) j
      | None => GBPanic
      end
  end.

(* the regex-automata oracle for a delegated block: anchored at ix, leftmost-first, returning
   the end offset and the capture slots of the groups [sg, eg) *)
Definition oracle (es : list expr) (sg eg : nat) (ix : nat) : option (nat * list val) :=
  match semk cx (Concat es) (S (length t)) sg (ix, repeat MAXV (2 * eg)) Some with
  | Some s' => Some s'
  | None => None
  end.

Section Generic.
Variable S : Type.
Variable I : iface S.

(* FailNegativeLookAround: pop until the popped pc is pc + 1 *)
Fixpoint fnla (fuel : nat) (s : S) (target : nat) : option S :=
  match fuel with
  | 0 => None
  | Datatypes.S f =>
      match i_pop I s with
      | None => None
      | Some (s', ppc, _) => if ppc =? target then Some s' else fnla f s' target
      end
  end.

(* saving the groups a delegate reports: only participating groups are written *)
Fixpoint save_groups (s : S) (caps : list val) (sg n : nat) : option S :=
  match n with
  | 0 => Some s
  | Datatypes.S n' =>
      match getcap caps (2 * sg), getcap caps (2 * sg + 1) with
      | V a, V b =>
          match i_save I s (2 * sg) (V a) with
          | Some s1 =>
              match i_save I s1 (2 * sg + 1) (V b) with
              | Some s2 => save_groups s2 caps (Datatypes.S sg) n'
              | None => None
              end
          | None => None
          end
      | _, _ => save_groups s caps (Datatypes.S sg) n'
      end
  end.

Definition save_or_panic (s : S) (slot : nat) (v : val) (k : S -> gires S) : gires S :=
  match i_save I s slot v with Some s' => k s' | None => IPanicked end.

Definition push_or (s : S) (pc ix : nat) (k : S -> gires S) : gires S :=
  match i_push I s pc ix with Some s' => k s' | None => IStackOverflow end.

Definition gexec_insn (i : insn) (pc ix : nat) (s : S) : gires S :=
  match i with
  | IEnd =>
      match i_get I s 1 with
      | Some slot1 =>
          match i_get I s 0 with
          | None => IPanicked
          | Some s0 =>
              let gt := match s0, slot1 with
                        | V a, V b => b <? a
                        | MAXV, V _ => true
                        | _, MAXV => false
                        end in
              if gt then match i_save I s 0 slot1 with
                         | Some s' => IDone (i_result I s')
                         | None => IPanicked
                         end
              else IDone (i_result I s)
          end
      | None => IDone (i_result I s)
      end
  | IAny =>
      match nth_error t ix with
      | Some b => INext (Datatypes.S pc) (ix + cp_len b) s
      | None => IFailed s
      end
  | IAnyNoNL =>
      match nth_error t ix with
      | Some b => if b =? 10 then IFailed s else INext (Datatypes.S pc) (ix + cp_len b) s
      | None => IFailed s
      end
  | IAssertion a => if assert_holds cx a ix then INext (Datatypes.S pc) ix s else IFailed s
  | ILit v => if lit_at t ix v then INext (Datatypes.S pc) (ix + length v) s else IFailed s
  | ISplit x y => push_or s y ix (fun s' => INext x ix s')
  | IJmp target => INext target ix s
  | ISave slot => save_or_panic s slot (V ix) (fun s' => INext (Datatypes.S pc) ix s')
  | ISave0 slot => save_or_panic s slot (V 0) (fun s' => INext (Datatypes.S pc) ix s')
  | IRestore slot =>
      match i_get I s slot with
      | Some (V v) => INext (Datatypes.S pc) v s
      | _ => IPanicked
      end
  | IRepeatGr lo hi next rep =>
      match i_get I s rep with
      | Some (V c) =>
          if N.eqb (N.of_nat c) hi then INext next ix s else
          save_or_panic s rep (V (c + 1)) (fun s1 =>
            if N.leb lo (N.of_nat c) then push_or s1 next ix (fun s2 => INext (Datatypes.S pc) ix s2)
            else INext (Datatypes.S pc) ix s1)
      | _ => IPanicked
      end
  | IRepeatNg lo hi next rep =>
      match i_get I s rep with
      | Some (V c) =>
          if N.eqb (N.of_nat c) hi then INext next ix s else
          save_or_panic s rep (V (c + 1)) (fun s1 =>
            if N.leb lo (N.of_nat c) then push_or s1 (Datatypes.S pc) ix (fun s2 => INext next ix s2)
            else INext (Datatypes.S pc) ix s1)
      | _ => IPanicked
      end
  | IRepeatEpsilonGr lo next rep chk =>
      match i_get I s rep, i_get I s chk with
      | Some (V c), Some ck =>
          if N.ltb lo (N.of_nat c) && val_eqb ck (V ix) then IFailed s else
          save_or_panic s rep (V (c + 1)) (fun s1 =>
            if N.leb lo (N.of_nat c) then
              save_or_panic s1 chk (V ix) (fun s2 =>
                push_or s2 next ix (fun s3 => INext (Datatypes.S pc) ix s3))
            else INext (Datatypes.S pc) ix s1)
      | _, _ => IPanicked
      end
  | IRepeatEpsilonNg lo next rep chk =>
      match i_get I s rep, i_get I s chk with
      | Some (V c), Some ck =>
          if N.ltb lo (N.of_nat c) && val_eqb ck (V ix) then IFailed s else
          save_or_panic s rep (V (c + 1)) (fun s1 =>
            if N.leb lo (N.of_nat c) then
              save_or_panic s1 chk (V ix) (fun s2 =>
                push_or s2 (Datatypes.S pc) ix (fun s3 => INext next ix s3))
            else INext (Datatypes.S pc) ix s1)
      | _, _ => IPanicked
      end
  | IFailNegativeLookAround =>
      match fnla (Datatypes.S (i_count I s)) s (Datatypes.S pc) with
      | Some s' => IFailed s'
      | None => IPanicked
      end
  | IGoBack cnt =>
      match goback ix cnt ix with
      | GBOk j => INext (Datatypes.S pc) j s
      | GBFail => IFailed s
      | GBPanic => IPanicked
      end
  | IBackref slot =>
      match i_get I s slot, i_get I s (Datatypes.S slot) with
      | Some MAXV, _ => IFailed s
      | Some (V _), Some MAXV => IFailed s
      | Some (V lo), Some (V hi) =>
          if hi <? lo then IFailed s else
          if (hi <=? length t) && is_boundary t lo && is_boundary t hi then
            if lit_at t ix (slice t lo hi) then INext (Datatypes.S pc) (ix + (hi - lo)) s else IFailed s
          else IPanicked
      | _, _ => IPanicked
      end
  | IBeginAtomic =>
      match i_spush I s (V (i_count I s)) with
      | Some s' => INext (Datatypes.S pc) ix s'
      | None => IPanicked
      end
  | IEndAtomic =>
      match i_spop I s with
      | Some (s1, V c) =>
          match i_cut I s1 c with
          | Some s2 => INext (Datatypes.S pc) ix s2
          | None => IPanicked
          end
      | _ => IPanicked
      end
  | IDelegate es sg eg =>
      match oracle es sg eg ix with
      | None => IFailed s
      | Some (ix', caps) =>
          if sg =? eg then INext (Datatypes.S pc) ix' s
          else match save_groups s caps sg (eg - sg) with
               | Some s' => INext (Datatypes.S pc) ix' s'
               | None => IPanicked
               end
      end
  | IContinueFromPreviousMatchEnd =>
      if negb (ix =? c_pos cx) || c_skipped cx then IFailed s else INext (Datatypes.S pc) ix s
  | IBackrefExistsCondition g =>
      match i_get I s (2 * N.to_nat g) with
      | Some MAXV => IFailed s
      | Some (V _) => INext (Datatypes.S pc) ix s
      | None => IPanicked
      end
  end.

Definition bump (st : stats) (depth : nat) : stats :=
  {| n_insn := N.succ (n_insn st); n_back := n_back st; peak := Nat.max (peak st) depth |}.
Definition bump_back (st : stats) : stats :=
  {| n_insn := n_insn st; n_back := N.succ (n_back st); peak := peak st |}.

(* the two nested loops of vm::run; one unit of fuel per executed instruction.
   [limit = None] is an unlimited run (used by the C07 theorems). *)
Fixpoint grun_loop (p : prog) (limit : option N) (fuel : nat)
         (pc ix : nat) (s : S) (bt : N) (st : stats) : outcome * stats :=
  match fuel with
  | 0 => (ROutOfFuel, st)
  | Datatypes.S f =>
      let st := bump st (i_count I s) in
      match nth_error (p_body p) pc with
      | None => (RPanic, st)
      | Some i =>
          match gexec_insn i pc ix s with
          | INext pc' ix' s' => grun_loop p limit f pc' ix' s' bt st
          | IDone sv => (RMatch sv, st)
          | IStackOverflow => (RErrStack, st)
          | IPanicked => (RPanic, st)
          | IFailed s' =>
              if i_count I s' =? 0 then (RNoMatch, st) else
              let bt' := N.succ bt in
              let st := bump_back st in
              if match limit with Some l => N.ltb l bt' | None => false end
              then (RErrLimit, st)
              else match i_pop I s' with
                   | Some (s'', pc', ix') => grun_loop p limit f pc' ix' s'' bt' st
                   | None => (RPanic, st)
                   end
          end
      end
  end.

End Generic.

Definition ires := gires state.
Definition exec_insn := gexec_insn state iface0.
Definition run_loop := grun_loop state iface0.

Definition stats0 : stats := {| n_insn := 0; n_back := 0; peak := 0 |}.

Definition vm_run (p : prog) (max_st : nat) (limit : option N) (fuel : nat) : outcome * stats :=
  run_loop p limit fuel 0 (c_pos cx) (st_new (p_nsaves p) max_st) 0%N stats0.

End Run.
