(* Vm.v — port of the instruction set and of vm::run (vm.rs:105-200, 434-730): the interpreter
   loop over the backtracking State of State.v, with explicit outcomes for every panic site,
   the backtrack limit, the stack bound, and the statistics the run-stats hook reports.
   A Delegate instruction carries the easy sub-expressions it was built from and executes as
   an anchored search of the reference semantics (the regex-automata oracle, DESIGN 4.3). *)
From FR Require Export State Ast Analyze Sem.
From FR.Generated Require Consts.
From Coq Require Import String.

Inductive insn :=
| IEnd | IAny | IAnyNoNL
| IAssertion (a : assertion)
| ILit (v : list nat)
| ISplit (x y : nat)
| IJmp (target : nat)
| ISave (slot : nat) | ISave0 (slot : nat) | IRestore (slot : nat)
| IRepeatGr (lo hi : N) (next rep : nat)
| IRepeatNg (lo hi : N) (next rep : nat)
| IRepeatEpsilonGr (lo : N) (next rep chk : nat)
| IRepeatEpsilonNg (lo : N) (next rep chk : nat)
| IFailNegativeLookAround
| IGoBack (count : N)
| IBackref (slot : nat)
| IBeginAtomic | IEndAtomic
| IDelegate (es : list expr) (start_group end_group : nat)
| IContinueFromPreviousMatchEnd
| IBackrefExistsCondition (g : N).

Open Scope string_scope.
Example insn_variants_known :
  Consts.INSN_VARIANTS =
  ["End"; "Any"; "AnyNoNL"; "Assertion"; "Lit"; "Split"; "Jmp"; "Save"; "Save0"; "Restore";
   "RepeatGr"; "RepeatNg"; "RepeatEpsilonGr"; "RepeatEpsilonNg"; "FailNegativeLookAround";
   "GoBack"; "Backref"; "BeginAtomic"; "EndAtomic"; "Delegate"; "ContinueFromPreviousMatchEnd";
   "BackrefExistsCondition"].
Proof. reflexivity. Qed.
(* the two tests of the run loop the model hard-codes *)
Example cont_test_known : Consts.CONT_TEST = "ix != pos". Proof. reflexivity. Qed.
Example limit_test_known : Consts.LIMIT_TEST = ">". Proof. reflexivity. Qed.
Close Scope string_scope.
Import List.

Record prog := { p_body : list insn; p_nsaves : nat }.

Inductive outcome :=
| RMatch (saves : list val)
| RNoMatch
| RErrStack          (* RuntimeError::StackOverflow *)
| RErrLimit          (* RuntimeError::BacktrackLimitExceeded *)
| RPanic
| ROutOfFuel.

Record stats := { n_insn : N; n_back : N; peak : nat }.

(* result of one instruction *)
Inductive ires :=
| INext (pc ix : nat) (s : state)
| IFailed (s : state)                 (* break 'fail *)
| IDone (saves : list val)
| IStackOverflow
| IPanicked.

Section Run.
Variable cx : ctx.                    (* text, pos, skipped-empty-match flag *)
Let t := c_text cx.

(* GoBack: count steps of prev_codepoint_ix, failing at 0; fuel = ix suffices *)
Inductive gb := GBOk (ix : nat) | GBFail | GBPanic.
Fixpoint goback (fuel : nat) (cnt : N) (ix : nat) : gb :=
  if N.eqb cnt 0 then GBOk ix else
  match fuel with
  | 0 => GBFail                        (* ix = 0 reached with cnt > 0 *)
  | S f =>
      if ix =? 0 then GBFail else
      match prev_cp t ix with
      | Some j => goback f (N.pred cnt) j
      | None => GBPanic
      end
  end.

(* FailNegativeLookAround: pop until the popped pc is pc + 1 *)
Fixpoint fnla (fuel : nat) (s : state) (target : nat) : option state :=
  match fuel with
  | 0 => None
  | S f =>
      match st_pop s with
      | None => None
      | Some (s', ppc, _) => if ppc =? target then Some s' else fnla f s' target
      end
  end.

(* the regex-automata oracle for a delegated block: anchored at ix, leftmost-first, returning
   the end offset and the capture slots of the groups [sg, eg) *)
Definition oracle (es : list expr) (sg eg : nat) (ix : nat) : option (nat * list val) :=
  match semk cx (Concat es) (S (length t)) sg (ix, repeat MAXV (2 * eg)) Some with
  | Some s' => Some s'
  | None => None
  end.

(* saving the groups a delegate reports: only participating groups are written *)
Fixpoint save_groups (s : state) (caps : list val) (sg n : nat) : option state :=
  match n with
  | 0 => Some s
  | S n' =>
      match getcap caps (2 * sg), getcap caps (2 * sg + 1) with
      | V a, V b =>
          match st_save s (2 * sg) (V a) with
          | Some s1 =>
              match st_save s1 (2 * sg + 1) (V b) with
              | Some s2 => save_groups s2 caps (S sg) n'
              | None => None
              end
          | None => None
          end
      | _, _ => save_groups s caps (S sg) n'
      end
  end.

Definition save_or_panic (s : state) (slot : nat) (v : val) (k : state -> ires) : ires :=
  match st_save s slot v with Some s' => k s' | None => IPanicked end.

Definition push_or (s : state) (pc ix : nat) (k : state -> ires) : ires :=
  match st_push s pc ix with Some s' => k s' | None => IStackOverflow end.

Definition exec_insn (i : insn) (pc ix : nat) (s : state) : ires :=
  match i with
  | IEnd =>
      match nth_error (saves s) 1 with
      | Some slot1 =>
          match st_get s 0 with
          | None => IPanicked
          | Some s0 =>
              let gt := match s0, slot1 with
                        | V a, V b => b <? a
                        | MAXV, V _ => true
                        | _, MAXV => false
                        end in
              if gt then match st_save s 0 slot1 with
                         | Some s' => IDone (saves s')
                         | None => IPanicked
                         end
              else IDone (saves s)
          end
      | None => IDone (saves s)
      end
  | IAny =>
      match nth_error t ix with
      | Some b => INext (S pc) (ix + cp_len b) s
      | None => IFailed s
      end
  | IAnyNoNL =>
      match nth_error t ix with
      | Some b => if b =? 10 then IFailed s else INext (S pc) (ix + cp_len b) s
      | None => IFailed s
      end
  | IAssertion a => if assert_holds cx a ix then INext (S pc) ix s else IFailed s
  | ILit v => if lit_at t ix v then INext (S pc) (ix + length v) s else IFailed s
  | ISplit x y => push_or s y ix (fun s' => INext x ix s')
  | IJmp target => INext target ix s
  | ISave slot => save_or_panic s slot (V ix) (fun s' => INext (S pc) ix s')
  | ISave0 slot => save_or_panic s slot (V 0) (fun s' => INext (S pc) ix s')
  | IRestore slot =>
      match st_get s slot with
      | Some (V v) => INext (S pc) v s
      | _ => IPanicked
      end
  | IRepeatGr lo hi next rep =>
      match st_get s rep with
      | Some (V c) =>
          if N.eqb (N.of_nat c) hi then INext next ix s else
          save_or_panic s rep (V (c + 1)) (fun s1 =>
            if N.leb lo (N.of_nat c) then push_or s1 next ix (fun s2 => INext (S pc) ix s2)
            else INext (S pc) ix s1)
      | _ => IPanicked
      end
  | IRepeatNg lo hi next rep =>
      match st_get s rep with
      | Some (V c) =>
          if N.eqb (N.of_nat c) hi then INext next ix s else
          save_or_panic s rep (V (c + 1)) (fun s1 =>
            if N.leb lo (N.of_nat c) then push_or s1 (S pc) ix (fun s2 => INext next ix s2)
            else INext (S pc) ix s1)
      | _ => IPanicked
      end
  | IRepeatEpsilonGr lo next rep chk =>
      match st_get s rep, st_get s chk with
      | Some (V c), Some ck =>
          if N.ltb lo (N.of_nat c) && val_eqb ck (V ix) then IFailed s else
          save_or_panic s rep (V (c + 1)) (fun s1 =>
            if N.leb lo (N.of_nat c) then
              save_or_panic s1 chk (V ix) (fun s2 =>
                push_or s2 next ix (fun s3 => INext (S pc) ix s3))
            else INext (S pc) ix s1)
      | _, _ => IPanicked
      end
  | IRepeatEpsilonNg lo next rep chk =>
      match st_get s rep, st_get s chk with
      | Some (V c), Some ck =>
          if N.ltb lo (N.of_nat c) && val_eqb ck (V ix) then IFailed s else
          save_or_panic s rep (V (c + 1)) (fun s1 =>
            if N.leb lo (N.of_nat c) then
              save_or_panic s1 chk (V ix) (fun s2 =>
                push_or s2 (S pc) ix (fun s3 => INext next ix s3))
            else INext (S pc) ix s1)
      | _, _ => IPanicked
      end
  | IFailNegativeLookAround =>
      match fnla (S (length (stack s))) s (S pc) with
      | Some s' => IFailed s'
      | None => IPanicked
      end
  | IGoBack cnt =>
      match goback ix cnt ix with
      | GBOk j => INext (S pc) j s
      | GBFail => IFailed s
      | GBPanic => IPanicked
      end
  | IBackref slot =>
      match st_get s slot, st_get s (S slot) with
      | Some MAXV, _ => IFailed s
      | Some (V _), Some MAXV => IFailed s
      | Some (V lo), Some (V hi) =>
          if hi <? lo then IFailed s else
          if (hi <=? length t) && is_boundary t lo && is_boundary t hi then
            if lit_at t ix (slice t lo hi) then INext (S pc) (ix + (hi - lo)) s else IFailed s
          else IPanicked
      | _, _ => IPanicked
      end
  | IBeginAtomic =>
      match st_stack_push s (V (st_count s)) with
      | Some s' => INext (S pc) ix s'
      | None => IPanicked
      end
  | IEndAtomic =>
      match st_stack_pop s with
      | Some (s1, V c) =>
          match st_cut s1 c with
          | Some s2 => INext (S pc) ix s2
          | None => IPanicked
          end
      | _ => IPanicked
      end
  | IDelegate es sg eg =>
      match oracle es sg eg ix with
      | None => IFailed s
      | Some (ix', caps) =>
          if sg =? eg then INext (S pc) ix' s
          else match save_groups s caps sg (eg - sg) with
               | Some s' => INext (S pc) ix' s'
               | None => IPanicked
               end
      end
  | IContinueFromPreviousMatchEnd =>
      if negb (ix =? c_pos cx) || c_skipped cx then IFailed s else INext (S pc) ix s
  | IBackrefExistsCondition g =>
      match st_get s (2 * N.to_nat g) with
      | Some MAXV => IFailed s
      | Some (V _) => INext (S pc) ix s
      | None => IPanicked
      end
  end.

Definition bump (st : stats) (depth : nat) : stats :=
  {| n_insn := N.succ (n_insn st); n_back := n_back st; peak := Nat.max (peak st) depth |}.
Definition bump_back (st : stats) : stats :=
  {| n_insn := n_insn st; n_back := N.succ (n_back st); peak := peak st |}.

(* the two nested loops of vm::run; one unit of fuel per executed instruction.
   [limit = None] is an unlimited run (used by the C07 theorems). *)
Fixpoint run_loop (p : prog) (limit : option N) (fuel : nat)
         (pc ix : nat) (s : state) (bt : N) (st : stats) : outcome * stats :=
  match fuel with
  | 0 => (ROutOfFuel, st)
  | S f =>
      let st := bump st (length (stack s)) in
      match nth_error (p_body p) pc with
      | None => (RPanic, st)
      | Some i =>
          match exec_insn i pc ix s with
          | INext pc' ix' s' => run_loop p limit f pc' ix' s' bt st
          | IDone sv => (RMatch sv, st)
          | IStackOverflow => (RErrStack, st)
          | IPanicked => (RPanic, st)
          | IFailed s' =>
              match stack s' with
              | [] => (RNoMatch, st)
              | _ =>
                  let bt' := N.succ bt in
                  let st := bump_back st in
                  if match limit with Some l => N.ltb l bt' | None => false end
                  then (RErrLimit, st)
                  else match st_pop s' with
                       | Some (s'', pc', ix') => run_loop p limit f pc' ix' s'' bt' st
                       | None => (RPanic, st)
                       end
              end
          end
      end
  end.

Definition stats0 : stats := {| n_insn := 0; n_back := 0; peak := 0 |}.

Definition vm_run (p : prog) (max_st : nat) (limit : option N) (fuel : nat) : outcome * stats :=
  run_loop p limit fuel 0 (c_pos cx) (st_new (p_nsaves p) max_st) 0%N stats0.

End Run.
