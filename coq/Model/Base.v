(* Base.v — shared list utilities and the slot-value type.
   [val] is a machine word used as a slot content: [V n] is the number n,
   [MAXV] is usize::MAX (the "unset" sentinel).  No large nat literal appears. *)
From Coq Require Export List Arith Lia Bool.
Export ListNotations.

Inductive val := V (n : nat) | MAXV.

Definition val_eqb (a b : val) : bool :=
  match a, b with
  | V x, V y => Nat.eqb x y
  | MAXV, MAXV => true
  | _, _ => false
  end.

Lemma val_eqb_spec a b : reflect (a = b) (val_eqb a b).
Proof.
  destruct a as [x|], b as [y|]; simpl; try (constructor; congruence).
  destruct (Nat.eqb_spec x y); constructor; congruence.
Qed.

Section ListUtil.
Context {A : Type}.

Fixpoint upd (l : list A) (i : nat) (v : A) : list A :=
  match l, i with
  | [], _ => []
  | _ :: r, 0 => v :: r
  | x :: r, S i => x :: upd r i v
  end.

Lemma upd_length l : forall i v, length (upd l i v) = length l.
Proof. induction l; destruct i; simpl; auto. Qed.

Lemma nth_error_upd l : forall i j v,
  nth_error (upd l i v) j =
  if (i =? j) && (i <? length l) then Some v else nth_error l j.
Proof.
  induction l as [|x l IH]; intros i j v.
  - simpl. rewrite andb_false_r. destruct i; reflexivity.
  - destruct i, j; simpl; auto. rewrite IH. reflexivity.
Qed.

Lemma list_ext (a b : list A) :
  (forall j, nth_error a j = nth_error b j) -> a = b.
Proof.
  revert b; induction a as [|x a IH]; intros [|y b] H; auto.
  - specialize (H 0); discriminate.
  - specialize (H 0); discriminate.
  - f_equal. { specialize (H 0). simpl in H. congruence. }
    apply IH. intros j. apply (H (S j)).
Qed.

Lemma upd_upd sv k v w : upd (upd sv k v) k w = upd sv k w.
Proof.
  apply list_ext. intros j. rewrite !nth_error_upd, upd_length.
  destruct ((k =? j) && (k <? length sv)); auto.
Qed.

Lemma upd_same sv k v : nth_error sv k = Some v -> upd sv k v = sv.
Proof.
  intros H. apply list_ext. intros j. rewrite nth_error_upd.
  destruct (Nat.eqb_spec k j); simpl; auto. subst.
  destruct (j <? length sv); auto.
Qed.

Lemma upd_oob sv k v : length sv <= k -> upd sv k v = sv.
Proof.
  intros H. apply list_ext. intros j. rewrite nth_error_upd.
  destruct (Nat.ltb_spec k (length sv)); [lia|]. now rewrite andb_false_r.
Qed.

Lemma upd_app_l a b k v : k < length a -> upd (a ++ b) k v = upd a k v ++ b.
Proof.
  revert k; induction a as [|x a IH]; intros k H; simpl in *; [lia|].
  destruct k; simpl; auto. rewrite IH by lia. reflexivity.
Qed.

Lemma firstn_upd_ge n sv k v : n <= k -> firstn n (upd sv k v) = firstn n sv.
Proof.
  revert sv k; induction n as [|n IH]; intros sv k H; simpl; auto.
  destruct sv as [|x sv]; simpl; auto. destruct k; [lia|]. simpl. rewrite IH by lia. reflexivity.
Qed.

Lemma firstn_upd_lt n sv k v : k < n -> firstn n (upd sv k v) = upd (firstn n sv) k v.
Proof.
  revert sv k; induction n as [|n IH]; intros sv k H; [lia|].
  destruct sv as [|x sv]; simpl; auto. destruct k; simpl; auto. rewrite IH by lia. reflexivity.
Qed.

Lemma firstn_add (l : list A) : forall n m, firstn (n + m) l = firstn n l ++ firstn m (skipn n l).
Proof. induction l; intros [|n] m; simpl; auto. { now rewrite firstn_nil. } now rewrite IHl. Qed.

Lemma skipn_add (l : list A) : forall n m, skipn m (skipn n l) = skipn (n + m) l.
Proof. induction l; intros [|n] m; simpl; auto. now rewrite skipn_nil. Qed.

Lemma firstn_skipn_len (l : list A) x : firstn x l ++ skipn (length (firstn x l)) l = l.
Proof.
  destruct (Nat.le_gt_cases x (length l)).
  - rewrite firstn_length_le by auto. apply firstn_skipn.
  - rewrite firstn_all2 by lia. rewrite skipn_all. apply app_nil_r.
Qed.

Lemma nth_error_skipn' (l : list A) : forall m j, nth_error (skipn m l) j = nth_error l (m + j).
Proof. induction l; intros [|m] j; simpl; auto. destruct j; auto. Qed.

Lemma nth_error_firstn' (l : list A) : forall k j, j < k -> nth_error (firstn k l) j = nth_error l j.
Proof.
  induction l as [|x l IH]; intros [|k] [|j] H; simpl; auto; try lia. apply IH. lia.
Qed.

End ListUtil.
