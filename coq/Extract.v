(* Extract.v — extraction of the executable model to OCaml (ExtrOcamlBasic only:
   bool, option, list, prod, unit, sumbool map to the OCaml types; nat, N, positive stay
   inductive).  The output files model.ml/model.mli are written to the working directory. *)
From Coq Require Extraction ExtrOcamlBasic.
From FR Require Import Base State Utf8 Ast Analyze Parse Sem Vm Compile Scope Escape Api Expand.
Extraction Language OCaml.
Extraction "model.ml"
  st_new exec rexec r_new abs
  usize_max facts acheck regex_new compile wrap ngroups delegate_pattern to_str push_usize
  vm_run search search_list semk sem init_caps Nat.add in_scope in_scope_all vm_scope_b
  regex_search regex_ngroups mnext cnext collect ccollect split_collect splitn_collect try_replacen
  m_init sp_init cap_get cap_len
  steps expansion check x_escape expander_default expander_python
  escape push_quoted is_word_cp fold_cp
  Parse.parse
  N.add N.mul N.of_nat N.to_nat N.eqb.
