(* Extract.v — extraction of the executable model to OCaml (ExtrOcamlBasic only:
   bool, option, list, prod, unit, sumbool map to the OCaml types; nat, N, positive stay
   inductive).  The output files model.ml/model.mli are written to the working directory. *)
From Coq Require Extraction ExtrOcamlBasic.
From FR Require Import Base State.
Extraction Language OCaml.
Extraction "model.ml" st_new exec rexec r_new abs.
